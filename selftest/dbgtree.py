#!/usr/bin/env python3
"""debug helper: dbgtree.py <patch> -> materialise /tmp/rv/<name> with the patch applied and print its facts dir."""
import os, shutil, subprocess, sys
VERIF = os.path.dirname(os.path.dirname(os.path.abspath(__file__)))
sys.path.insert(0, os.path.join(VERIF, 'engine'))
import runner


def make(patch, name=None):
    name = name or os.path.basename(os.path.dirname(os.path.abspath(patch)))
    tree = os.path.join('/tmp/rv', name)
    shutil.rmtree(tree, ignore_errors=True)
    os.makedirs(tree)
    for item in ('src', 'tests', 'Cargo.toml', 'Cargo.lock'):
        s = os.path.join('/repo', item)
        (shutil.copytree if os.path.isdir(s) else shutil.copy)(s, os.path.join(tree, item))
    subprocess.check_call(['patch', '-p1', '-s', '-i', os.path.abspath(patch)], cwd=tree)
    return tree


def facts(patch):
    import mirq
    tree = make(patch)
    d = runner.ensure_facts('debug', tree)[0]
    return mirq.Facts(os.path.join(d, 'rdest-rlib.json')), tree


if __name__ == '__main__':
    print(make(sys.argv[1]))
