#!/usr/bin/env python3
"""confirm one seeded change produced by an independent agent and run every check against it.

usage: eval_seed.py <mutation-dir> <seed-id> <property>
 mutation-dir holds patch.diff, demo.diff, README.md.  A persistent evaluation clone of /repo is
 kept at /tmp/agents/evalrepo (own target dir); it is reset to /repo's HEAD before each step.
Writes /verif/seeded/<seed-id>/{patch.diff,demo.diff,README.md,meta.json}."""
import json
import os
import re
import shutil
import subprocess
import sys

VERIF = os.path.dirname(os.path.dirname(os.path.abspath(__file__)))
EVAL = os.environ.get('VERIF_EVALREPO', '/tmp/agents/evalrepo')   # parallel evaluators use one clone each
PROPS = ['C%02d' % i for i in range(1, 21) if i != 2]


def sh(cmd, cwd=None, timeout=1800):
    r = subprocess.run(cmd, shell=True, cwd=cwd, stdout=subprocess.PIPE, stderr=subprocess.STDOUT, universal_newlines=True, timeout=timeout)
    return r.returncode, r.stdout


def reset():
    if not os.path.isdir(EVAL):
        sh('git clone -q /repo %s' % EVAL)
        sh('cp -r /repo/target %s/target' % EVAL)
    head = sh('git -C /repo rev-parse HEAD')[1].strip()
    sh('git fetch -q /repo && git checkout -q -f %s && git clean -fdq -e target' % head, cwd=EVAL)


def main(argv):
    mdir, sid, prop = argv[1], argv[2], argv[3]
    patch = os.path.join(mdir, 'patch.diff')
    demo = os.path.join(mdir, 'demo.diff')
    meta = {'seed_id': sid, 'property': prop, 'source': 'independent sub-agent given only the property text and its own worktree'}
    reset()
    rc, out = sh('git apply %s' % patch, cwd=EVAL)
    meta['patch_applies'] = rc == 0
    if rc != 0:
        print('patch does not apply', out)
        return 1
    rc, out = sh('cargo build --offline 2>&1 | tail -3', cwd=EVAL)
    meta['builds'] = 'Finished' in out
    rc, out = sh('cargo test --offline --test test_bdecoder --test test_deep_finder --test test_metainfo 2>&1 | grep "test result"', cwd=EVAL)
    passed = sum(int(x) for x in re.findall(r'(\d+) passed', out))
    failed = sum(int(x) for x in re.findall(r'(\d+) failed', out))
    meta['suite_with_patch'] = {'passed': passed, 'failed': failed}
    # checks against the patched tree (no demo code in it)
    tree = EVAL.rstrip('/') + '-tree'
    shutil.rmtree(tree, ignore_errors=True)
    os.makedirs(tree)
    for item in ('src', 'tests', 'Cargo.toml', 'Cargo.lock'):
        s = os.path.join(EVAL, item)
        (shutil.copytree if os.path.isdir(s) else shutil.copy)(s, os.path.join(tree, item))
    det = {}
    for p in PROPS:
        env = 'VERIF_REPO=%s VERIF_EVIDENCE_DIR=%s' % (tree, tree)
        rc, out = sh('%s %s/check %s' % (env, VERIF, p))
        keys = [l.strip().split(' ')[0] for l in out.split('\n') if l.startswith('  %s/' % p)]
        if rc == 1:
            det[p] = keys
        elif rc == 2:
            det[p] = ['NOT-ANALYSED']
    meta['checks_reporting'] = det
    meta['detected_by_own_property_check'] = prop in det
    meta['detected_by_any_check'] = bool(det)
    shutil.rmtree(tree, ignore_errors=True)
    # demonstration: fails with patch, passes without
    demo_names = []
    if os.path.exists(demo):
        rc, out = sh('git apply %s' % demo, cwd=EVAL)
        meta['demo_applies_on_patch'] = rc == 0
        txt = open(demo).read()
        demo_names = sorted(set(re.findall(r'mod (demo_\w+)', txt)))
        flt = ' '.join(demo_names) if demo_names else 'demo'
        cmd = 'cargo test --offline --lib %s -- --test-threads=1 2>&1 | grep -E "^test |test result"' % (demo_names[0] if demo_names else 'demo')
        tfiles = sorted(set(re.findall(r'\+\+\+ b/tests/(\w+)\.rs', txt)))
        if tfiles and not demo_names:
            # an integration test file of its own: run only that test target (the crate has a pre-existing failing doctest)
            cmd = 'cargo test --offline %s -- --test-threads=1 2>&1 | grep -E "^test |test result"' % ' '.join('--test ' + t for t in tfiles)
        rc, out = sh(cmd, cwd=EVAL)
        meta['demo_with_patch'] = out.strip()[-600:]
        fails_with = 'FAILED' in out or 'failed' in out
        sh('git apply -R %s' % patch, cwd=EVAL)
        rc, out2 = sh(cmd, cwd=EVAL)
        meta['demo_without_patch'] = out2.strip()[-600:]
        passes_without = ('FAILED' not in out2) and re.search(r'[1-9]\d* passed', out2) is not None
        meta['demo_fails_with_patch'] = fails_with
        meta['demo_passes_without_patch'] = passes_without
    meta['confirmed'] = bool(meta.get('builds') and failed == 0 and passed == 71 and meta.get('demo_fails_with_patch') and meta.get('demo_passes_without_patch'))
    sh('rm -f *.piece', cwd=EVAL)
    out_dir = os.path.join(VERIF, 'seeded', sid)
    os.makedirs(out_dir, exist_ok=True)
    for f in ('patch.diff', 'demo.diff', 'README.md'):
        if os.path.exists(os.path.join(mdir, f)):
            shutil.copy(os.path.join(mdir, f), os.path.join(out_dir, f))
    rd = open(os.path.join(mdir, 'README.md')).read() if os.path.exists(os.path.join(mdir, 'README.md')) else ''
    meta['needs_to_manifest'] = rd[:1500]
    meta['what_i_ran'] = ['git apply patch.diff', 'cargo build --offline', 'cargo test --offline --test test_bdecoder --test test_deep_finder --test test_metainfo',
                          './check <each property> with VERIF_REPO=<patched tree>', 'git apply demo.diff; cargo test --offline --lib <demo module> (with patch, then with patch reverted)']
    json.dump(meta, open(os.path.join(out_dir, 'meta.json'), 'w'), indent=1)
    print(json.dumps({k: meta[k] for k in ('seed_id', 'confirmed', 'builds', 'suite_with_patch', 'demo_fails_with_patch', 'demo_passes_without_patch', 'detected_by_own_property_check', 'checks_reporting')}, indent=1)[:1500])
    return 0


if __name__ == '__main__':
    sys.exit(main(sys.argv))
