"""self-validation corpus of the rule tables (thorough tier).

MUTANTS: small source edits that compile, keep the 71 tests green (they touch untested code or
keep tested outputs) and break one obligation; the named check must report a violation whose key
contains `expect`.  A mutant whose anchor text no longer occurs exactly once in the current tree
is skipped (counted, never a violation).

BENIGN: behaviour-preserving edits that every listed check must stay silent on (same exit code
and no VIOLATION line beyond those of the unchanged tree).

Each entry: (id, [properties], file, old, new, expect)"""

MUTANTS = [
    # ---- C01
    ('C01-swap-verify-save', ['C01'], 'src/peer_handler.rs',
     "            self.verify_piece_hash()?;\n            self.save_piece_to_file().await?;",
     "            self.save_piece_to_file().await?;\n            self.verify_piece_hash()?;", 'write-before-verify'),
    ('C01-ignore-verify', ['C01'], 'src/peer_handler.rs', "            self.verify_piece_hash()?;", "            let _ = self.verify_piece_hash();", 'verify-result-unused'),
    ('C01-weak-request-test', ['C01'], 'src/peer_handler.rs',
     "                            .validate(piece_rx.piece_index, *block_begin, *block_length)\n                            .is_ok()",
     "                            .validate(piece_rx.piece_index, *block_begin, *block_length)\n                            .is_ok() || *block_length > 0", 'guard-predicate'),
    ('C01-have-in-handle-have', ['C01'], 'src/peer.rs', "        self.pieces[piece_index] = true;",
     "        self.pieces[piece_index] = true; if self.choked { pieces_status[piece_index] = Status::Have; }", 'have-store-outside-piecedone'),
    ('C01-piecedone-on-cancel', ['C01'], 'src/peer_handler.rs', "self.trigger_cmd_piece_finish(false).await?;", "self.trigger_cmd_piece_finish(true).await?;", 'piecedone-before-save'),
    ('C01-reqdata-hash0', ['C01'], 'src/peer.rs', "piece_hash: *metainfo.piece(piece_index),\n    }", "piece_hash: *metainfo.piece(0),\n    }", 'reqdata-field'),
    # ---- C03
    ('C03-no-seek', ['C03'], 'src/extractor.rs',
     "                if piece_index == start.file_index {\n                    reader.seek(std::io::SeekFrom::Start(start.byte_index as u64))?;\n                }", "", 'write-independent-of-start-offset'),
    ('C03-no-accumulate', ['C03'], 'src/metainfo.rs', "            pos += *length as usize;", "", 'ranges-'),
    ('C03-piece0', ['C03'], 'src/extractor.rs', 'let name = utils::hash_to_string(&self.metainfo.piece(piece_index)) + ".piece";',
     'let name = utils::hash_to_string(&self.metainfo.piece(0)) + ".piece";', 'open-index'),
    ('C03-last-piece-le', ['C03'], 'src/metainfo.rs', "        if piece_index < self.pieces.len() - 1 {", "        if piece_index <= self.pieces.len() - 1 {", 'piece-length/non-last'),
    # ---- C04
    ('C04-bypass-name', ['C04'], 'src/metainfo.rs', "            true => Self::sanitize_path(&self.name),", "            true => PathBuf::from(&self.name),", 'unsanitised'),
    ('C04-keep-parentdir', ['C04'], 'src/metainfo.rs', "                Component::Normal(part) => Some(part),",
     '                Component::Normal(part) => Some(part), Component::ParentDir => Some(std::ffi::OsStr::new("..")),', 'no-sanitiser'),
    # ---- C05
    ('C05-wrong-key', ['C05'], 'src/metainfo.rs', 'if let Some(info) = DeepFinder::find_first("4:info", data) {', 'if let Some(info) = DeepFinder::find_first("4:name", data) {', 'hash-key'),
    ('C05-partial-hash', ['C05'], 'src/metainfo.rs', "            hasher.update(info.as_ref());", "            hasher.update(&info[1..]);", 'hash-slice'),
    ('C05-other-buffer', ['C05'], 'src/metainfo.rs', "                BValue::Dict(dict) => match Self::parse(data, &dict) {",
     "                BValue::Dict(dict) => match Self::parse(&data[..data.len()-1], &dict) {", 'parsed-and-hashed-buffers-differ'),
    # ---- C06 (reverse patches of the fixes + others)
    ('C06-refutable-select', ['C06'], 'src/peer_handler.rs',
     "                frame = self.connection.recv_frame() => {\n                    if self.handle_frame(frame?).await? == false {",
     "                Ok(frame) = self.connection.recv_frame() => {\n                    if self.handle_frame(frame).await? == false {", 'reader-error-discarded'),
    ('C06-unknown-unguarded', ['C06'], 'src/frame.rs',
     "                if available_data < MSG_LEN_SIZE + length {\n                    return Err(Error::Incomplete(\"Unknown\"));\n                }\n", "", 'position/computed-unguarded'),
    ('C06-choke-incomplete', ['C06'], 'src/messages/choke.rs', 'false => Err(Error::InvalidLength("Choke")),', 'false => Err(Error::Incomplete("Choke")),', 'incomplete-on-wrong-length/Choke'),
    ('C06-swallow-all-errors', ['C06'], 'src/connection.rs', "                Err(e) => return Err(e.into()),", "                Err(_) => return Ok(None),", 'error-swallowed'),
    ('C06-size-limit-gone', ['C06'], 'src/frame.rs', "&& length > MAX_FRAME_SIZE {", "&& length > MAX_FRAME_SIZE * 1024 {", 'C06/5'),
    # ---- C07
    ('C07-have-len6', ['C07'], 'src/messages/have.rs', "const LEN: u32 = 5;", "const LEN: u32 = 6;", 'Have'),
    ('C07-little-endian', ['C07'], 'src/messages/have.rs', "self.piece_index.to_be_bytes()", "self.piece_index.to_le_bytes()", 'endianness'),
    ('C07-cancel-offset', ['C07'], 'src/messages/cancel.rs', "let start = start + Cancel::INDEX_SIZE;", "let start = start + Cancel::INDEX_SIZE + 1;", 'reader/Cancel'),
    ('C07-bit-order', ['C07'], 'src/messages/bitfield.rs', "byte |= Bitfield::BYTE_MASK >> idx;", "byte |= 1 << idx;", 'bitfield/from_vec'),
    ('C07-sibling-check', ['C07'], 'src/frame.rs', "crs.set_position(Cancel::check(available_data, length)? as u64);", "crs.set_position(Request::check(available_data, length)? as u64);", 'dispatch/Cancel'),
    ('C07-piece-consumes-more', ['C07'], 'src/messages/piece.rs', "true => Ok(Piece::LEN_SIZE + length),", "true => Ok(Piece::LEN_SIZE + length + 1),", 'check/Piece'),
    # ---- C08
    ('C08-swapped-handshake-args', ['C08'], 'src/peer_handler.rs', ".send_msg(&Handshake::new(&self.info_hash, &self.own_id))", ".send_msg(&Handshake::new(&self.own_id, &self.info_hash))", 'own-handshake-args'),
    ('C08-partial-hash-compare', ['C08'], 'src/messages/handshake.rs',
     "            .any(|(idx, b)| *b != info_hash[idx])\n        {\n            return Err(Error::InvalidInfoHash);",
     "            .take(19).any(|(idx, b)| *b != info_hash[idx])\n        {\n            return Err(Error::InvalidInfoHash);", 'validate-hash-not-compared'),
    ('C08-flag-before-validate', ['C08'], 'src/peer_handler.rs',
     "        handshake.validate(&self.info_hash, &self.peer_id)?;\n        self.handshake_done = true;",
     "        self.handshake_done = true;\n        handshake.validate(&self.info_hash, &self.peer_id)?;", 'effect-before-validate'),
    ('C08-bitfield-ungated', ['C08'], 'src/peer_handler.rs', "                        Frame::Handshake(_) => (),", "                        Frame::Handshake(_) | Frame::Bitfield(_) => (),", 'ungated-arm'),
    ('C08-incoming-expected-id', ['C08'], 'src/session.rs', "            self.own_id,\n            None,", "            self.own_id,\n            Some(self.own_id),", 'spawn/peer-id'),
    # ---- C09
    ('C09-u32-sum', ['C09'], 'src/messages/request.rs', "if self.block_begin as u64 + self.block_length as u64 > piece_length as u64 {", "if self.block_begin + self.block_length > piece_length as u32 {", 'wire-arith'),
    ('C09-keep-cache-on-choke', ['C09'], 'src/peer_handler.rs', "                        self.piece_tx = None;\n", "", 'choke-not-honoured'),
    ('C09-manager-ignores-choke', ['C09'], 'src/peer.rs', "        if self.am_choked {\n            return RequestCmd::Ignore;\n        }\n", "", 'load-unguarded/not-choked'),
    ('C09-validate-ignored', ['C09'], 'src/peer_handler.rs', "request.validate(piece_tx.piece_index, self.pieces_num, piece_tx.buff.len())?;",
     "let _ = request.validate(piece_tx.piece_index, self.pieces_num, piece_tx.buff.len());", 'reply-without-validate'),
    ('C09-no-length-limit', ['C09'], 'src/messages/request.rs',
     "        if self.block_length > PIECE_BLOCK_SIZE as u32 {\n            return Err(Error::InvalidLength(\"Request\"));\n        }\n", "", 'validate-missing/length<=block'),
    ('C09-slice-from-zero', ['C09'], 'src/peer_handler.rs', "piece_tx.buff[request.block_begin()..block_end].to_vec(),", "piece_tx.buff[..block_end].to_vec(),", 'reply-slice-start'),
    # ---- C10
    ('C10-not-recorded', ['C10'], 'src/peer_handler.rs', "                piece_rx.requested.push_back((block_begin, block_len));", "", 'request-not-recorded'),
    ('C10-swapped-fields', ['C10'], 'src/peer_handler.rs', "let msg = Request::new(piece_rx.piece_index, block_begin, block_len);", "let msg = Request::new(piece_rx.piece_index, block_len, block_begin);", 'request-fields-swapped'),
    ('C10-retain-begin-only', ['C10'], 'src/peer_handler.rs', "            !(*block_begin == piece.block_begin() && *block_length == piece.block_length())", "            !(*block_begin == piece.block_begin())", 'retain-predicate'),
    ('C10-complete-early', ['C10'], 'src/peer_handler.rs', "        if piece_rx.left.is_empty() && piece_rx.requested.is_empty() {", "        if piece_rx.left.is_empty() {", 'completion-guard'),
    ('C10-half-remainder', ['C10'], 'src/peer_handler.rs', "                true => piece_length % PIECE_BLOCK_SIZE,", "                true => piece_length % (PIECE_BLOCK_SIZE / 2),", 'plan-lengths'),
    # ---- C11
    ('C11-not-missing', ['C11'], 'src/peer.rs', "                .map(|status| *status == Status::Have)", "                .map(|status| *status != Status::Missing)", 'bitfield-predicate'),
    ('C11-drop-when-choked', ['C11'], 'src/peer_handler.rs', "                    true => self.msg_buff.push(Frame::Have(Have::new(piece_index))),", "                    true => (),", 'have-dropped'),
    ('C11-lifo-flush', ['C11'], 'src/peer_handler.rs', "            for frame in self.msg_buff.iter() {", "            for frame in self.msg_buff.iter().rev() {", 'buffer-method'),
    ('C11-clear-on-choke', ['C11'], 'src/peer_handler.rs', "        self.peer_state.choked = true;\n        self.trigger_cmd_recv_choke().await?;",
     "        self.peer_state.choked = true; self.msg_buff.clear();\n        self.trigger_cmd_recv_choke().await?;", 'clear-before-flush'),
    ('C11-have-before-save', ['C11'], 'src/peer_handler.rs', "            self.save_piece_to_file().await?;", "            self.save_piece_to_file().await?; self.connection.send_msg(&Have::new(0)).await?;", 'have-built-elsewhere'),
    # ---- C12
    ('C12-choke-no-release', ['C12'], 'src/peer.rs',
     "                    Status::Reserved(peers_count) => match peers_count >= 2 {\n                        true => Status::Reserved(peers_count - 1),\n                        false => Status::Missing,\n                    },\n                    Status::Missing => Status::Missing,\n                    Status::Have => Status::Have,\n                }\n            }\n            _ => (),",
     "                    Status::Reserved(peers_count) => Status::Reserved(peers_count),\n                    Status::Missing => Status::Missing,\n                    Status::Have => Status::Have,\n                }\n            }\n            _ => (),", 'choke-without-release'),
    ('C12-have-not-recorded', ['C12'], 'src/peer.rs',
     "                pieces_status[piece_index] = Status::Reserved(1);\n                self.piece_index = Some(piece_index);", "                pieces_status[piece_index] = Status::Reserved(1);", 'acquire-not-recorded'),
    # ---- C13
    ('C13-descending', ['C13'], 'src/session.rs', "rarest.sort_by(|(_, count1), (_, count2)| count1.cmp(&count2));", "rarest.sort_by(|(_, count1), (_, count2)| count2.cmp(&count1));", 'ordering-descending'),
    ('C13-threshold-le', ['C13'], 'src/session.rs', "match still_missing < END_GAME_LIMIT {", "match still_missing <= END_GAME_LIMIT {", 'end-game-operator'),
    ('C13-endgame-missing-only', ['C13'], 'src/session.rs', "            true => Box::new(|idx: usize| self.pieces_status[idx] != Status::Have),", "            true => Box::new(|idx: usize| self.pieces_status[idx] == Status::Missing),", 'filter/end-game'),
    ('C13-peer-not-consulted', ['C13'], 'src/session.rs', "            if count > &0 && pieces[*piece_index] == true {", "            if count > &0 {", 'some-unguarded/peer-has'),
    # ---- C14
    ('C14-count-optimistic-only', ['C14'], 'src/session.rs', "peer.am_choked == false && peer.optimistic_unchoke == false)", "peer.am_choked == false && peer.optimistic_unchoke == true)", 'regular-unchoked-not-counted'),
    ('C14-ascending-rates', ['C14'], 'src/session.rs', "        rates.sort_by(|(_, r1), (_, r2)| r2.cmp(&r1));", "        rates.sort_by(|(_, r1), (_, r2)| r1.cmp(&r2));", 'sort-orientation'),
    ('C14-uncounted-slot', ['C14'], 'src/session.rs', "                } else if !peer.am_choked && peer.interested {\n                    count += 1;", "                } else if !peer.am_choked && peer.interested {\n                    count += 0;", 'slot-not-counted'),
    ('C14-choke-not-published', ['C14'], 'src/session.rs',
     "                } else if !peer.am_choked && !peer.interested {\n                    peer.am_choked = true;\n                    am_choked_map.insert(addr.clone(), true);\n                }",
     "                } else if !peer.am_choked && !peer.interested {\n                    peer.am_choked = true;\n                }", 'state-not-published'),
    ('C14-twelve-slots', ['C14'], 'src/constants.rs', "pub const MAX_UNCHOKED: usize = 10;", "pub const MAX_UNCHOKED: usize = 12;", 'max-unchoked'),
    ('C14-unchoke-sends-choke', ['C14'], 'src/peer_handler.rs', "                    Some(false) => self.connection.send_msg(&Unchoke::new()).await?,", "                    Some(false) => self.connection.send_msg(&Choke::new()).await?,", 'own-state-mapping'),
    # ---- C15
    ('C15-descending-keys', ['C15'], 'src/bcodec/bencoder.rs', "sorted_values.sort_by(|a, b| a.0.cmp(b.0));", "sorted_values.sort_by(|a, b| b.0.cmp(a.0));", 'dict-order'),
    ('C15-unsorted', ['C15'], 'src/bcodec/bencoder.rs', "        sorted_values.sort_by(|a, b| a.0.cmp(b.0));", "", 'dict-not-sorted'),
    ('C15-value-before-key', ['C15'], 'src/bcodec/bencoder.rs', "                BValue::List(l) => out.add_byte_str(key.as_slice()).add_list(l),", "                BValue::List(l) => out.add_list(l).add_byte_str(key.as_slice()),", 'variant-encoder/add_dict/List'),
    # ---- C16
    ('C16-leading-zero-accepted', ['C16'], 'src/bcodec/bdecoder.rs',
     '        if num_as_str.len() >= 2 && num_as_str.starts_with("0") || num_as_str.starts_with("-0") {\n            return Err(Error::DecodeLeadingZero("parse_int", pos));\n        }', '', 'guard-missing/BDecoder::parse_int/DecodeLeadingZero'),
    ('C16-short-string-accepted', ['C16'], 'src/bcodec/bdecoder.rs',
     '        if str_value.len() != len {\n            return Err(Error::DecodeNotEnoughChars("parse_byte_str", pos));\n        }', '', 'guard-missing/BDecoder::parse_byte_str/DecodeNotEnoughChars'),
    ('C16-unwrap-length', ['C16'], 'src/bcodec/bdecoder.rs',
     '        let len: usize = match len_str.parse() {\n            Ok(v) => v,\n            Err(_) => return Err(Error::DecodeUnableConvert("parse_byte_str", "int", pos)),\n        };',
     '        let len: usize = len_str.parse().unwrap();', 'panic-site'),
    # ---- C17
    ('C17-zero-piece-length', ['C17'], 'src/metainfo.rs', "                    Ok(length) if length > 0 => Ok(length),", "                    Ok(length) => Ok(length),", 'piece-length-zero-accepted'),
    ('C17-both-accepted', ['C17'], 'src/metainfo.rs', "        if length.is_some() && multi_files.is_some() {\n            return Err(Error::MetaLenAndFilesConflict);\n        } else if", "        if", 'both-accepted'),
    ('C17-writer-piece-length', ['C17'], 'src/metainfo.rs', 'b"piece length".to_vec() => BValue::Int(PIECE_LENGTH as i64),', 'b"piece length".to_vec() => BValue::Int(16384),', 'writer-piece-length'),
    ('C17-pieces-reversed', ['C17'], 'src/metainfo.rs', "                        .chunks(HASH_SIZE)\n                        .map(|chunk| chunk.try_into().unwrap())",
     "                        .chunks(HASH_SIZE).rev()\n                        .map(|chunk| chunk.try_into().unwrap())", 'reordering-adaptor'),
    # ---- C18
    ('C18-left-zero', ['C18'], 'src/tracker_client.rs', '("left", self.metainfo.total_length().to_string()),', '("left", "0".to_string()),', 'query-param/left'),
    ('C18-raw-hash', ['C18'], 'src/tracker_client.rs', 'let info_hash: String = form_urlencoded::byte_serialize(metainfo.info_hash()).collect();',
     'let info_hash: String = String::from_utf8_lossy(metainfo.info_hash()).to_string();', 'info-hash-not-encoded'),
    ('C18-separator-inverted', ['C18'], 'src/tracker_client.rs', '            true => "&",\n            false => "?",', '            true => "?",\n            false => "&",', 'query-unaware'),
    # ---- C19
    ('C19-join-after-fail', ['C19'], 'src/session.rs',
     "                // Tracker task ends only after successful response\n                self.kill_tracker().await;\n            }\n            TrackerCmd::Fail(e) => self.log(format!(\"Tracker fail: {}\", e)).await,\n        }",
     "            }\n            TrackerCmd::Fail(e) => self.log(format!(\"Tracker fail: {}\", e)).await,\n        }\n        self.kill_tracker().await;", 'join-after-nonterminal/tracker/Fail'),
    ('C19-failure-ignored', ['C19'], 'src/tracker_resp.rs', "        if let Some(reason) = Self::find_failure_reason(dict) {\n            return Err(Error::TrackerRespFail(reason));\n        }\n", "", 'anchor-missing'),
    ('C19-no-retry', ['C19'], 'src/tracker_client.rs', "                    self.send_cmd(TrackerCmd::Fail(e)).await;\n                    time::sleep(Duration::from_millis(DELAY_MS)).await;",
     "                    self.send_cmd(TrackerCmd::Fail(e)).await;\n                    break;", 'fail-does-not-retry'),
    ('C19-peers-reversed', ['C19'], 'src/tracker_resp.rs', '.map(|p| (p.ip.clone() + ":" + p.port.to_string().as_str(), p.peer_id))', '.rev().map(|p| (p.ip.clone() + ":" + p.port.to_string().as_str(), p.peer_id))', 'peers-order'),
    ('C19-port-clamped', ['C19'], 'src/tracker_resp.rs', "                    (Ok(ip), Ok(peer_id), Ok(port)) => Some(PeerAddr { ip, peer_id, port }),",
     "                    (Ok(ip), Ok(peer_id), Ok(port)) => Some(PeerAddr { ip, peer_id, port: port.max(1) }),", 'peeraddr/port'),
    # ---- C20
    ('C20-limit-3', ['C20'], 'src/peer_handler.rs', "const KEEP_ALIVE_LIMIT: u32 = 2;", "const KEEP_ALIVE_LIMIT: u32 = 3;", 'silent-peer-closed-too-late'),
    ('C20-piece-no-reset', ['C20'], 'src/peer_handler.rs', "Frame::KeepAlive(_) => self.peer_state.keep_alive,", "Frame::KeepAlive(_) | Frame::Piece(_) => self.peer_state.keep_alive,", 'no-reset-on/Piece'),
    ('C20-timeout-swallowed', ['C20'], 'src/peer_handler.rs', "_ = keep_alive_timer.tick() => self.timeout_keep_alive().await?,", "_ = keep_alive_timer.tick() => { let _ = self.timeout_keep_alive().await; },", 'timeout-error-swallowed'),
    ('C20-keepalive-not-awaited', ['C20'], 'src/peer_handler.rs', "        self.connection.send_msg(&KeepAlive::new()).await?;", "        let _ = self.connection.send_msg(&KeepAlive::new());", 'S-AWAIT/future-not-awaited'),
]

BENIGN = [
    ('B-not-vs-eq-false', ['C01', 'C06', 'C08', 'C20'], 'src/peer_handler.rs',
     "                    if self.handle_frame(frame?).await? == false {", "                    if !self.handle_frame(frame?).await? {"),
    ('B-explicit-match-for-question-mark', ['C12', 'C06', 'C01'], 'src/peer_handler.rs',
     "        have.validate(self.pieces_num)?;", "        match have.validate(self.pieces_num) {\n            Ok(()) => (),\n            Err(e) => return Err(e.into()),\n        };"),
    ('B-reorder-independent-stores', ['C12', 'C01'], 'src/peer.rs',
     "        self.choked = false;\n        self.piece_index = chosen_index;", "        self.piece_index = chosen_index;\n        self.choked = false;"),
    ('B-extra-log-line', ['C19', 'C12', 'C14'], 'src/session.rs',
     "                self.candidates.extend_from_slice(&peers);", "                self.candidates.extend_from_slice(&peers);\n                self.log(format!(\"Candidates: {}\", self.candidates.len())).await;"),
    ('B-rename-local', ['C03', 'C04'], 'src/extractor.rs',
     "                let mut buffer = vec![0; end.byte_index - skip];\n                reader.read_exact(buffer.as_mut_slice())?;\n                writer.write_all(buffer.as_slice())?;",
     "                let mut chunk = vec![0; end.byte_index - skip];\n                reader.read_exact(chunk.as_mut_slice())?;\n                writer.write_all(chunk.as_slice())?;"),
    ('B-if-let-to-match', ['C09', 'C06'], 'src/connection.rs',
     "        if let Some(socket) = self.socket.as_mut() {\n            socket.write_all(msg.data().as_slice()).await?;\n        }",
     "        match self.socket.as_mut() {\n            Some(socket) => socket.write_all(msg.data().as_slice()).await?,\n            None => (),\n        }"),
    ('B-unrelated-constant', ['C14', 'C20', 'C06'], 'src/constants.rs', "pub const MAX_NOT_INTERESTED: usize = 4;", "pub const MAX_NOT_INTERESTED: usize = 4;\npub const UNUSED_FOR_TEST: usize = 7;"),
    ('B-ge-instead-of-eq-limit', ['C20'], 'src/peer_handler.rs', "        if self.peer_state.keep_alive == KEEP_ALIVE_LIMIT {", "        if self.peer_state.keep_alive >= KEEP_ALIVE_LIMIT {"),
    ('B-early-return-style', ['C09', 'C12'], 'src/peer.rs',
     "        if pieces_status[piece_index] != Status::Have {\n            return RequestCmd::Ignore;\n        }", "        if !(pieces_status[piece_index] == Status::Have) {\n            return RequestCmd::Ignore;\n        }"),
    ('B-and-form-in-check', ['C06', 'C07'], 'src/messages/have.rs',
     "        match available_data >= Have::LEN_SIZE + length {", "        match available_data >= Have::LEN_SIZE + length && available_data >= Have::FULL_SIZE {"),
    ('B-shadowed-let', ['C17', 'C03'], 'src/metainfo.rs',
     "        let last = self.total_length() as usize % self.piece_length as usize;", "        let total = self.total_length() as usize;\n        let last = total % self.piece_length as usize;"),
]
