#!/usr/bin/env python3
"""for every audit allow-table entry: which panic-site keys of today's tree it matches (to spot entries that are wider than
the sites they were written for, or that match nothing)"""
import importlib, os, sys
VERIF = os.path.dirname(os.path.dirname(os.path.abspath(__file__)))
sys.path.insert(0, os.path.join(VERIF, 'engine')); sys.path.insert(0, VERIF)
import mirq, runner
from rules import common as C
F = mirq.Facts(os.path.join(runner.ensure_facts('debug', '/repo')[0], 'rdest-rlib.json'))
keys = []
a = C.Audit(F, [], {})
for f in F.user_fns():
    if f.derived:
        continue
    for kind, bb, ops in mirq.panic_sites(f):
        if not a.auto(f, kind, bb, ops):
            keys.append(a.key(f, kind, ops))
for m in ('C06', 'C09', 'C12', 'C16', 'C17', 'C19'):
    mod = importlib.import_module('rules.' + m)
    for ak, reason in getattr(mod, 'ALLOW', {}).items():
        hits = [k for k in keys if k.startswith(ak)]
        kinds = sorted({k[len(k.split('/')[0]):].split('/')[1] for k in hits})
        print('%s %-3d %-90s %s' % (m, len(hits), ak[:90], kinds))
