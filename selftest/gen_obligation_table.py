#!/usr/bin/env python3
"""regenerate the as-built obligation list in DESIGN.md from the rule tables"""
import importlib, os, re, sys
V = os.path.dirname(os.path.dirname(os.path.abspath(__file__)))
sys.path.insert(0, os.path.join(V, 'engine')); sys.path.insert(0, V)
out = []
for i in range(1, 21):
    p = 'C%02d' % i
    try:
        m = importlib.import_module('rules.%s' % p)
    except ImportError:
        continue
    out.append('\n**%s** — not decided: %s\n' % (p, getattr(m, 'NOT_DECIDED', '')))
    out.append('| # | kind | obligation | floor |\n|---|---|---|---|')
    for r in m.TABLE.rules:
        out.append('| %s | %s | %s | %d |' % (r.oid, r.kind, r.title.replace('|', '/'), r.floor))
    out.append('| S-AWAIT | side | every future of a crate-local async fn is awaited in the creating body or is a select! branch | 1 |')
s = open(os.path.join(V, 'DESIGN.md')).read()
blk = '<!-- OBLIGATIONS-BEGIN -->\n' + '\n'.join(out) + '\n<!-- OBLIGATIONS-END -->'
if '<!-- OBLIGATIONS-BEGIN -->' in s:
    s = re.sub(r'<!-- OBLIGATIONS-BEGIN -->.*<!-- OBLIGATIONS-END -->', lambda m_: blk, s, flags=re.S)
else:
    s += '\n### 9.6 Obligations as built (generated from rules/*.py)\n\nThe tables of §4 were the plan; the lists below are what the committed rule tables evaluate.\n\n' + blk + '\n'
open(os.path.join(V, 'DESIGN.md'), 'w').write(s)
print('ok')
