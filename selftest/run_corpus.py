#!/usr/bin/env python3
"""run the self-validation corpus (selftest/corpus.py) against scratch copies of /repo's current tree.

usage: run_corpus.py [--props C01,C06] [--only ID] [--kind mutants|benign|all] [--json out.json]
A scratch copy (src + manifests only) is made per entry under a mktemp directory and removed
afterwards.  Exit 0 when every applicable mutant is detected with the expected key and every
benign edit stays silent; exit 2 otherwise (a broken checker, never a property violation)."""
import json
import os
import shutil
import subprocess
import sys
import tempfile

HERE = os.path.dirname(os.path.abspath(__file__))
VERIF = os.path.dirname(HERE)
sys.path.insert(0, HERE)
import corpus  # noqa: E402

REPO = os.environ.get('VERIF_REPO', '/repo')


def scratch(repo):
    d = tempfile.mkdtemp(prefix='rdest-selftest-')
    dst = os.path.join(d, 'repo')
    os.makedirs(dst)
    for item in ('src', 'tests', 'Cargo.toml', 'Cargo.lock'):
        s = os.path.join(repo, item)
        if os.path.isdir(s):
            shutil.copytree(s, os.path.join(dst, item))
        elif os.path.exists(s):
            shutil.copy(s, os.path.join(dst, item))
    return d, dst


def check(prop, repo, evdir):
    env = dict(os.environ, VERIF_REPO=repo, VERIF_EVIDENCE_DIR=evdir)
    env.pop('VERIF_SELFTEST', None)
    r = subprocess.run([os.path.join(VERIF, 'check'), prop, '--tier', 'quick'], env=env,
                       stdout=subprocess.PIPE, stderr=subprocess.STDOUT, universal_newlines=True)
    keys = []
    for line in r.stdout.split('\n'):
        if line.startswith('  %s/' % prop):
            keys.append(line.strip().split(' ')[0])
    return r.returncode, keys, r.stdout


def run(props=None, only=None, kind='all', repo=REPO, quiet=False):
    res = {'mutants': [], 'benign': []}
    base = {}
    if kind in ('all', 'mutants'):
        for mid, mprops, file, old, new, expect in corpus.MUTANTS:
            if only and mid != only:
                continue
            for p in mprops:
                if props and p not in props:
                    continue
                d, dst = scratch(repo)
                try:
                    path = os.path.join(dst, file)
                    s = open(path).read() if os.path.exists(path) else ''
                    if s.count(old) != 1:
                        res['mutants'].append({'id': mid, 'prop': p, 'status': 'skipped', 'why': 'anchor occurs %d times' % s.count(old)})
                        continue
                    open(path, 'w').write(s.replace(old, new))
                    rc, keys, out = check(p, dst, d)
                    if rc == 2:
                        st = 'not-compiling'
                    elif rc == 1 and any(expect in k for k in keys):
                        st = 'detected'
                    elif rc == 1:
                        st = 'detected-other-key'
                    else:
                        st = 'MISSED'
                    res['mutants'].append({'id': mid, 'prop': p, 'status': st, 'keys': keys[:4], 'expect': expect})
                    if not quiet:
                        print('%-34s %s %-20s %s' % (mid, p, st, keys[:2]))
                finally:
                    shutil.rmtree(d, ignore_errors=True)
    if kind in ('all', 'benign'):
        for bid, bprops, file, old, new in corpus.BENIGN:
            if only and bid != only:
                continue
            for p in bprops:
                if props and p not in props:
                    continue
                d, dst = scratch(repo)
                try:
                    if p not in base:
                        rc0, keys0, _ = check(p, dst, d)
                        base[p] = (rc0, set(keys0))
                    path = os.path.join(dst, file)
                    s = open(path).read() if os.path.exists(path) else ''
                    if s.count(old) != 1:
                        res['benign'].append({'id': bid, 'prop': p, 'status': 'skipped', 'why': 'anchor occurs %d times' % s.count(old)})
                        continue
                    open(path, 'w').write(s.replace(old, new))
                    rc, keys, out = check(p, dst, d)
                    extra = sorted(set(keys) - base[p][1])
                    st = 'silent' if (rc == base[p][0] and not extra) else ('not-compiling' if rc == 2 else 'FALSE-ALARM')
                    res['benign'].append({'id': bid, 'prop': p, 'status': st, 'keys': extra[:4]})
                    if not quiet:
                        print('%-34s %s %-20s %s' % (bid, p, st, extra[:2]))
                finally:
                    shutil.rmtree(d, ignore_errors=True)
    return res


def summary(res):
    m = res['mutants']
    b = res['benign']
    return {
        'mutants_total': len(m), 'mutants_detected': sum(1 for x in m if x['status'] == 'detected'),
        'mutants_detected_other_key': sum(1 for x in m if x['status'] == 'detected-other-key'),
        'mutants_missed': [x['id'] for x in m if x['status'] == 'MISSED'],
        'mutants_skipped': [x['id'] for x in m if x['status'] in ('skipped', 'not-compiling')],
        'benign_total': len(b), 'benign_silent': sum(1 for x in b if x['status'] == 'silent'),
        'benign_false_alarms': [x['id'] + '@' + x['prop'] for x in b if x['status'] == 'FALSE-ALARM'],
        'benign_skipped': [x['id'] for x in b if x['status'] in ('skipped', 'not-compiling')],
    }


def main(argv):
    props = None
    only = None
    kind = 'all'
    out = None
    if '--props' in argv:
        props = argv[argv.index('--props') + 1].split(',')
    if '--only' in argv:
        only = argv[argv.index('--only') + 1]
    if '--kind' in argv:
        kind = argv[argv.index('--kind') + 1]
    if '--json' in argv:
        out = argv[argv.index('--json') + 1]
    res = run(props, only, kind)
    s = summary(res)
    print(json.dumps(s, indent=1))
    if out:
        json.dump({'summary': s, 'results': res}, open(out, 'w'), indent=1)
    bad = s['mutants_missed'] or s['benign_false_alarms']
    return 2 if bad else 0


if __name__ == '__main__':
    sys.exit(main(sys.argv))
