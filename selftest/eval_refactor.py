#!/usr/bin/env python3
"""run every check against a behaviour-preserving refactoring (patch against /repo HEAD) and list alarms.
usage: eval_refactor.py <patch.diff> [<id>]   -> prints props whose outcome differs from the unchanged tree"""
import json, os, shutil, subprocess, sys, tempfile
VERIF = os.path.dirname(os.path.dirname(os.path.abspath(__file__)))
PROPS = ['C%02d' % i for i in range(1, 21) if i != 2]


def keys_of(tree, t, props=None):
    out = {}
    for p in (props or PROPS):
        env = dict(os.environ, VERIF_REPO=tree, VERIF_EVIDENCE_DIR=t)
        r = subprocess.run([os.path.join(VERIF, 'check'), p], env=env, stdout=subprocess.PIPE, stderr=subprocess.STDOUT, universal_newlines=True)
        ks = [l.strip().split(' ')[0] for l in r.stdout.split('\n') if l.startswith('  %s/' % p)]
        out[p] = (r.returncode, ks, r.stdout[-600:] if r.returncode == 2 else '')
    return out


def main(argv):
    patch = os.path.abspath(argv[1])
    t = tempfile.mkdtemp(prefix='rdest-refac-')
    try:
        tree = os.path.join(t, 'repo')
        os.makedirs(tree)
        for item in ('src', 'tests', 'Cargo.toml', 'Cargo.lock'):
            s = os.path.join('/repo', item)
            (shutil.copytree if os.path.isdir(s) else shutil.copy)(s, os.path.join(tree, item))
        r = subprocess.run(['patch', '-p1', '-s', '-i', patch], cwd=tree, stdout=subprocess.PIPE, stderr=subprocess.STDOUT, universal_newlines=True)
        if r.returncode != 0:
            print('PATCH-FAILS', r.stdout[:300])
            return 3
        res = keys_of(tree, t, argv[3].split(',') if len(argv) > 3 else None)
        alarms = {p: v[1] or v[2] for p, v in res.items() if v[0] != 0}
        if os.environ.get('FULL'):
            for p, v in res.items():
                if v[0] != 0:
                    env = dict(os.environ, VERIF_REPO=tree, VERIF_EVIDENCE_DIR=t)
                    r = subprocess.run([os.path.join(VERIF, 'check'), p], env=env, stdout=subprocess.PIPE, stderr=subprocess.STDOUT, universal_newlines=True)
                    print(r.stdout[-3000:])
        print(json.dumps({'id': argv[2] if len(argv) > 2 else patch, 'alarms': alarms}, indent=1)[:3000])
        return 1 if alarms else 0
    finally:
        shutil.rmtree(t, ignore_errors=True)


if __name__ == '__main__':
    sys.exit(main(sys.argv))
