#!/usr/bin/env python3
"""regenerate the seeds table in DESIGN.md from seeded/*/meta.json"""
import json, os, re
V = os.path.dirname(os.path.dirname(os.path.abspath(__file__)))
rows = []
missed_first = json.load(open(os.path.join(V, 'seeded', 'FIRST_PASS.json'))) if os.path.exists(os.path.join(V, 'seeded', 'FIRST_PASS.json')) else {}
for sid in sorted(os.listdir(os.path.join(V, 'seeded'))):
    mp = os.path.join(V, 'seeded', sid, 'meta.json')
    if not os.path.exists(mp):
        continue
    m = json.load(open(mp))
    rd = m.get('needs_to_manifest', '')
    first = [l.strip('# ').strip() for l in rd.split('\n') if l.strip()][:1]
    det = m.get('checks_reporting') or {}
    own = m['property'] in det
    keys = ', '.join('`%s`' % k.split('/', 1)[1][:70] for k in (det.get(m['property']) or [])[:2])
    others = ', '.join(sorted(p for p in det if p != m['property']))
    fp = missed_first.get(sid)
    rows.append('| %s | %s | %s | %s | %s | %s |' % (sid, 'yes' if m.get('confirmed') else 'no', (first[0] if first else '')[:90].replace('|', '/'),
                                                 ('own: ' + keys) if own else 'MISSED by own check', others or '-', fp or 'caught'))
tab = ['| seed | confirmed | change (first line of its README) | reported by | also reported by | first pass |', '|---|---|---|---|---|---|'] + rows
p = os.path.join(V, 'DESIGN.md')
s = open(p).read()
s = re.sub(r'<!-- SEEDS-TABLE-BEGIN -->.*<!-- SEEDS-TABLE-END -->', '<!-- SEEDS-TABLE-BEGIN -->\n' + '\n'.join(tab) + '\n<!-- SEEDS-TABLE-END -->', s, flags=re.S)
open(p, 'w').write(s)
print(len(rows), 'seeds')
