#!/usr/bin/env python3
"""regenerate rules/fn_fingerprints.json: rename-stable fingerprints of the functions named in the audit allow tables
(used only to re-identify a renamed function; a mismatch merely leaves the rename unrecognised)"""
import importlib, json, os, sys
VERIF = os.path.dirname(os.path.dirname(os.path.abspath(__file__)))
sys.path.insert(0, os.path.join(VERIF, 'engine'))
sys.path.insert(0, VERIF)
import mirq, runner
from rules import common as C
F = mirq.Facts(os.path.join(runner.ensure_facts('debug', '/repo')[0], 'rdest-rlib.json'))
names = set()
for m in ('C06', 'C09', 'C12', 'C16', 'C17', 'C19'):
    mod = importlib.import_module('rules.' + m)
    for k in getattr(mod, 'ALLOW', {}):
        names.add(k.split('/')[0].split('::{closure')[0])
out = {}
for f in F.user_fns():
    if f.kind in ('Fn', 'AssocFn'):
        out[f.path] = C.fingerprint(F, f)
dup = {}
for p, fp in out.items():
    dup.setdefault(fp, []).append(p)
amb = {fp: ps for fp, ps in dup.items() if len(ps) > 1}
json.dump(out, open(os.path.join(VERIF, 'rules', 'fn_fingerprints.json'), 'w'), indent=1, sort_keys=True)
print('%d functions, %d named in allow tables, %d ambiguous fingerprints' % (len(out), len(names), len(amb)))
for fp, ps in amb.items():
    print('  ambiguous:', ps)
