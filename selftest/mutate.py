#!/usr/bin/env python3
"""apply one source edit to a scratch copy of /repo and run a property check against it.

usage: mutate.py <prop>[,<prop>..] <file> <old> <new>     (old must occur exactly once unless --all)
       mutate.py --patch <diff> <prop>[,..]
The scratch copy lives under a mktemp directory and is removed afterwards."""
import os
import shutil
import subprocess
import sys
import tempfile

VERIF = os.path.dirname(os.path.dirname(os.path.abspath(__file__)))


def scratch():
    d = tempfile.mkdtemp(prefix='rdest-scratch-')
    dst = os.path.join(d, 'repo')
    shutil.copytree('/repo', dst, ignore=shutil.ignore_patterns('target', '.git'))
    return d, dst


def run_checks(props, repo, tier='quick'):
    out = {}
    for p in props:
        env = dict(os.environ, VERIF_REPO=repo, VERIF_EVIDENCE_DIR=os.path.join(os.path.dirname(repo), 'evidence'))
        r = subprocess.run([os.path.join(VERIF, 'check'), p, '--tier', tier], env=env,
                           stdout=subprocess.PIPE, stderr=subprocess.STDOUT, universal_newlines=True)
        out[p] = (r.returncode, r.stdout)
    return out


def main(argv):
    if argv[1] == '--patch':
        diff, props = argv[2], argv[3].split(',')
        d, repo = scratch()
        try:
            r = subprocess.run(['patch', '-p1', '-i', os.path.abspath(diff)], cwd=repo,
                               stdout=subprocess.PIPE, stderr=subprocess.STDOUT, universal_newlines=True)
            if r.returncode != 0:
                print(r.stdout)
                return 3
            res = run_checks(props, repo)
        finally:
            shutil.rmtree(d, ignore_errors=True)
    else:
        props, file, old, new = argv[1].split(','), argv[2], argv[3], argv[4]
        d, repo = scratch()
        try:
            p = os.path.join(repo, file)
            s = open(p).read()
            n = s.count(old)
            if n != 1 and '--all' not in argv:
                print('pattern occurs %d times in %s' % (n, file))
                return 3
            open(p, 'w').write(s.replace(old, new))
            res = run_checks(props, repo)
        finally:
            shutil.rmtree(d, ignore_errors=True)
    rc = 0
    for p, (code, out) in res.items():
        print('--- %s exit=%d' % (p, code))
        print(out)
        rc = max(rc, code)
    return rc


if __name__ == '__main__':
    sys.exit(main(sys.argv))
