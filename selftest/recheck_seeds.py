#!/usr/bin/env python3
"""re-run the checks against every kept seeded change (patch.diff under /verif/seeded/*) and update meta.json"""
import json, os, shutil, subprocess, sys, tempfile
VERIF = os.path.dirname(os.path.dirname(os.path.abspath(__file__)))
PROPS = ['C%02d' % i for i in range(1, 21) if i != 2]
only = sys.argv[1:] 
rows = []
for sid in sorted(os.listdir(os.path.join(VERIF, 'seeded'))):
    d = os.path.join(VERIF, 'seeded', sid)
    if only and not any(sid.startswith(o) for o in only):
        continue
    mp = os.path.join(d, 'meta.json')
    if not os.path.exists(mp):
        continue
    meta = json.load(open(mp))
    t = tempfile.mkdtemp(prefix='rdest-seed-')
    try:
        tree = os.path.join(t, 'repo')
        os.makedirs(tree)
        for item in ('src', 'tests', 'Cargo.toml', 'Cargo.lock'):
            s = os.path.join('/repo', item)
            (shutil.copytree if os.path.isdir(s) else shutil.copy)(s, os.path.join(tree, item))
        r = subprocess.run(['patch', '-p1', '-s', '-i', os.path.join(d, 'patch.diff')], cwd=tree, stdout=subprocess.PIPE, stderr=subprocess.STDOUT, universal_newlines=True)
        if r.returncode != 0:
            rows.append((sid, 'PATCH-FAILS', {}))
            continue
        det = {}
        props = PROPS if '--all' in sys.argv or True else [meta['property']]
        for p in props:
            env = dict(os.environ, VERIF_REPO=tree, VERIF_EVIDENCE_DIR=t)
            r = subprocess.run([os.path.join(VERIF, 'check'), p], env=env, stdout=subprocess.PIPE, stderr=subprocess.STDOUT, universal_newlines=True)
            keys = [l.strip().split(' ')[0] for l in r.stdout.split('\n') if l.startswith('  %s/' % p)]
            if r.returncode == 1:
                det[p] = keys
        meta['checks_reporting'] = det
        meta['detected_by_own_property_check'] = meta['property'] in det
        meta['detected_by_any_check'] = bool(det)
        json.dump(meta, open(mp, 'w'), indent=1)
        rows.append((sid, 'own' if meta['property'] in det else ('other' if det else 'MISSED'), {k: v[:2] for k, v in det.items()}))
    finally:
        shutil.rmtree(t, ignore_errors=True)
for r in rows:
    print(*r)
