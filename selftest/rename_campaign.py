#!/usr/bin/env python3
"""systematic false-alarm test: rename one identifier (local variable, struct field, function, constant) consistently in a
scratch copy of /repo (token-aware: string literals and comments are left alone), and require every check to stay silent.
A rename that does not compile is skipped.  usage: rename_campaign.py [--kinds vars,fields,fns,consts] [--only a,b] [--jobs N]
writes selftest/rename_results.json"""
import json, os, re, shutil, subprocess, sys, tempfile
from concurrent.futures import ThreadPoolExecutor
import queue
SLOTS = queue.Queue()
VERIF = os.path.dirname(os.path.dirname(os.path.abspath(__file__)))
sys.path.insert(0, os.path.join(VERIF, 'engine'))
PROPS = ['C%02d' % i for i in range(1, 21) if i != 2]

TOKEN = re.compile(r'''
    (?P<lc>//[^\n]*)
  | (?P<bc>/\*.*?\*/)
  | (?P<raw>b?r(?P<h>\#*)".*?"(?P=h))
  | (?P<str>b?"(?:\\.|[^"\\])*")
  | (?P<chr>b?'(?:\\.|[^'\\])')
  | (?P<life>'[A-Za-z_][A-Za-z0-9_]*)
  | (?P<id>[A-Za-z_][A-Za-z0-9_]*)
''', re.S | re.X)


def rename_text(text, old, new):
    n = [0]

    def sub(m):
        if m.lastgroup == 'id' and m.group('id') == old:
            n[0] += 1
            return new
        return m.group(0)
    return TOKEN.sub(sub, text), n[0]


def candidates(kinds):
    import mirq, runner
    F = mirq.Facts(os.path.join(runner.ensure_facts('debug', '/repo')[0], 'rdest-rlib.json'))
    out = {}
    if 'vars' in kinds:
        for f in F.user_fns():
            for v in f.raw['vars']:
                if v['n'] != 'self' and not v['n'].startswith('_'):
                    out.setdefault(v['n'], 'var')
    if 'fields' in kinds:
        for p, a in F.adts.items():
            for v in a['variants']:
                for fl in v['fields']:
                    if not fl['name'].isdigit():
                        out[fl['name']] = 'field'
    if 'fns' in kinds:
        for f in F.user_fns():
            if f.kind in ('Fn', 'AssocFn') and f.name and not f.trait and f.name not in ('new', 'main'):
                out[f.name] = 'fn'
    if 'consts' in kinds:
        for p in F.consts:
            nm = p.split('::')[-1]
            if nm.isupper() or '_' in nm and nm.upper() == nm:
                out[nm] = 'const'
    return out


def run_one(name, kind):
    slot = SLOTS.get()
    try:
        return _run_one(name, kind, slot)
    finally:
        SLOTS.put(slot)


def _run_one(name, kind, slot):
    new = name + ('_RN' if name.upper() == name else '_rn')
    t = tempfile.mkdtemp(prefix='rdest-rn-')
    try:
        tree = os.path.join(t, 'repo')
        os.makedirs(tree)
        for item in ('src', 'tests', 'Cargo.toml', 'Cargo.lock'):
            s = os.path.join('/repo', item)
            (shutil.copytree if os.path.isdir(s) else shutil.copy)(s, os.path.join(tree, item))
        total = 0
        for root, ds, fs in os.walk(tree):
            for fn in fs:
                if fn.endswith('.rs'):
                    p = os.path.join(root, fn)
                    txt = open(p).read()
                    txt2, n = rename_text(txt, name, new)
                    if n:
                        open(p, 'w').write(txt2)
                        total += n
        if not total:
            return name, kind, 'no-occurrence', {}
        res = {}
        for p in PROPS:
            env = dict(os.environ, VERIF_REPO=tree, VERIF_EVIDENCE_DIR=t, VERIF_TARGET_SLOT='-rn%d' % slot, VERIF_FACTS_KEEP='80')
            r = subprocess.run([os.path.join(VERIF, 'check'), p], env=env, stdout=subprocess.PIPE, stderr=subprocess.STDOUT, universal_newlines=True)
            if 'does not compile' in r.stdout:
                return name, kind, 'does-not-compile', {}
            if r.returncode != 0:
                ks = [l.strip().split(' ')[0] for l in r.stdout.split('\n') if l.startswith('  %s/' % p)]
                res[p] = ks or [r.stdout[-300:]]
        return name, kind, 'alarm' if res else 'silent', res
    finally:
        shutil.rmtree(t, ignore_errors=True)


def main(argv):
    kinds = (argv[argv.index('--kinds') + 1] if '--kinds' in argv else 'vars,fields,fns,consts').split(',')
    only = argv[argv.index('--only') + 1].split(',') if '--only' in argv else None
    jobs = int(argv[argv.index('--jobs') + 1]) if '--jobs' in argv else 6
    cands = candidates(kinds)
    if only:
        cands = {k: v for k, v in cands.items() if k in only}
    outp = os.path.join(VERIF, 'selftest', 'rename_results.json')
    results = {}
    if os.path.exists(outp) and not only:
        try:
            results = json.load(open(outp))
        except Exception:
            results = {}
    todo = [(n, k) for n, k in sorted(cands.items()) if n not in results or only]
    print('%d identifiers, %d to run' % (len(cands), len(todo)), flush=True)
    for i in range(jobs):
        SLOTS.put(i)
    with ThreadPoolExecutor(max_workers=jobs) as ex:
        for name, kind, status, res in ex.map(lambda a: run_one(*a), todo):
            results[name] = {'kind': kind, 'status': status, 'alarms': res}
            print('%-28s %-6s %-16s %s' % (name, kind, status, {k: v[:2] for k, v in res.items()}), flush=True)
            if not only:
                json.dump(results, open(outp, 'w'), indent=1, sort_keys=True)
    st = {}
    for v in results.values():
        st[v['status']] = st.get(v['status'], 0) + 1
    print(json.dumps(st))
    return 0


if __name__ == '__main__':
    sys.exit(main(sys.argv))
