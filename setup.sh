#!/bin/sh
# offline setup: build the fact extractor and pre-check rdest's dependencies into .cache
set -e
cd "$(dirname "$0")"
export CARGO_NET_OFFLINE=true
(cd engine/factgen && cargo +nightly build --release --offline)
python3 - <<'PY'
import sys
sys.path.insert(0, 'engine')
import runner
d, th, cached = runner.ensure_facts('debug')
print('facts for tree', th, 'in', d)
PY
