// integration-level triage (public API)
use rdest::{BDecoder, DeepFinder, Metainfo, RawFinder};

// D14 (C17): an accepted torrent is safe to use
#[test]
fn d14_piece_length_zero() {
    let t = b"d8:announce3:URL4:infod6:lengthi16e4:name1:f12:piece lengthi0e6:pieces20:AAAAAAAAAAAAAAAAAAAAee";
    match Metainfo::from_bencode(t) {
        Ok(m) => {
            let _ = m.piece_length(0);
        }
        Err(_) => (),
    }
}

// D15 (C16): known findings
#[test]
fn d15a_unterminated_list() {
    assert!(BDecoder::from_array(b"li1e").is_err());
}
#[test]
fn d15a_unterminated_dict() {
    assert!(BDecoder::from_array(b"d1:ai1e").is_err());
}
#[test]
fn d15b_missing_colon() {
    assert!(BDecoder::from_array(b"0").is_err());
}

// D16 (C05): known finding
#[test]
fn d16_nested_info_key() {
    let doc = b"d1:ad4:infoi1ee8:announce3:URL4:infod6:lengthi16e4:name1:f12:piece lengthi16e6:pieces20:AAAAAAAAAAAAAAAAAAAAee";
    assert_eq!(DeepFinder::find_first("4:info", doc).unwrap()[0], b'd');
    let _ = Metainfo::from_bencode(doc);
}
