#!/bin/sh
# usage: apply.sh <repo-copy>   -- appends the triage test modules to a scratch copy (never /repo)
set -e
R="$1"
[ "$R" = "/repo" ] && { echo "refusing to touch /repo"; exit 1; }
D="$(dirname "$0")"
cat "$D/connection_tests.rs" >> "$R/src/connection.rs"
cat "$D/peer_handler_tests.rs" >> "$R/src/peer_handler.rs"
cat "$D/extractor_tests.rs" >> "$R/src/extractor.rs"
cat "$D/session_tests.rs" >> "$R/src/session.rs"
cat "$D/tracker_client_tests.rs" >> "$R/src/tracker_client.rs"
cp "$D/public_tests.rs" "$R/tests/triage_public.rs"
