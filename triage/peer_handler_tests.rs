
#[cfg(test)]
mod triage {
    use super::*;
    use crate::serializer::Serializer;
    use std::collections::HashMap;
    use tokio::io::{AsyncReadExt, AsyncWriteExt};
    use tokio::net::{TcpListener, TcpStream};
    use tokio::time::{timeout, Duration};

    const HASH: [u8; 20] = [7; 20];
    const OWN: [u8; 20] = [1; 20];
    const PEER: [u8; 20] = [2; 20];

    struct Rig {
        peer: TcpStream,
        cmds: mpsc::Receiver<PeerCmd>,
        broad: broadcast::Sender<BroadCmd>,
        job: tokio::task::JoinHandle<()>,
        addr: String,
    }

    async fn rig() -> Rig {
        let l = TcpListener::bind("127.0.0.1:0").await.unwrap();
        let la = l.local_addr().unwrap();
        let peer = TcpStream::connect(la).await.unwrap();
        let (s, pa) = l.accept().await.unwrap();
        let (tx, rx) = mpsc::channel(64);
        let (btx, brx) = broadcast::channel(32);
        let addr = pa.to_string();
        let mut h = PeerHandler::new(addr.clone(), OWN, None, HASH, 4, tx, brx);
        let job = tokio::spawn(async move { h.run_outgoing(s).await });
        Rig { peer, cmds: rx, broad: btx, job, addr }
    }

    async fn handshake(r: &mut Rig) {
        r.peer.write_all(&Handshake::new(&HASH, &PEER).data()).await.unwrap();
        match timeout(Duration::from_secs(2), r.cmds.recv()).await.unwrap().unwrap() {
            PeerCmd::Init { resp_ch, .. } => {
                let _ = resp_ch.send(InitCmd::SendBitfield { bitfield: Bitfield::from_vec(&vec![true; 4]) });
            }
            other => panic!("{:?}", other),
        }
        // own handshake (68) + bitfield (4+1+1)
        let mut buf = [0u8; 68 + 6];
        timeout(Duration::from_secs(2), r.peer.read_exact(&mut buf)).await.unwrap().unwrap();
    }

    fn piece_file() -> Vec<u8> {
        let data: Vec<u8> = (0..64u8).collect();
        std::fs::write(utils::hash_to_string(&[9; 20]) + ".piece", &data).unwrap();
        data
    }

    async fn serve_request(r: &mut Rig) {
        match timeout(Duration::from_secs(2), r.cmds.recv()).await.unwrap().unwrap() {
            PeerCmd::RecvRequest { resp_ch, piece_index, .. } => {
                let _ = resp_ch.send(RequestCmd::LoadAndSendPiece { piece_index, piece_hash: [9; 20] });
            }
            other => panic!("{:?}", other),
        }
    }

    // D1 (C06): an oversized frame terminates the connection
    #[tokio::test]
    async fn d1_decoder_error_ends_the_task() {
        let mut r = rig().await;
        r.peer.write_all(&[0, 1, 0, 1, 7]).await.unwrap();
        match timeout(Duration::from_secs(2), r.cmds.recv()).await {
            Ok(Some(PeerCmd::KillReq { .. })) => (),
            Ok(other) => panic!("unexpected {:?}", other),
            Err(_) => panic!("frame error swallowed: no KillReq after an oversized frame"),
        }
    }

    // D5 (C08): no piece data on a connection that never sent a handshake
    #[tokio::test]
    async fn d5_no_piece_data_without_handshake() {
        let mut r = rig().await;
        piece_file();
        r.peer.write_all(&Request::new(0, 0, 4).data()).await.unwrap();
        // play the manager if asked
        if let Ok(Some(cmd)) = timeout(Duration::from_millis(700), r.cmds.recv()).await {
            match cmd {
                PeerCmd::RecvRequest { resp_ch, piece_index, .. } => {
                    let _ = resp_ch.send(RequestCmd::LoadAndSendPiece { piece_index, piece_hash: [9; 20] });
                }
                PeerCmd::KillReq { .. } => return,
                other => panic!("{:?}", other),
            }
        }
        let mut buf = [0u8; 13];
        let got = timeout(Duration::from_millis(700), r.peer.read_exact(&mut buf)).await;
        assert!(!matches!(got, Ok(Ok(_))), "piece data sent before any handshake: {:?}", buf);
    }

    // D6 (C09): begin+length overflowing u32 must not crash the task
    #[tokio::test]
    async fn d6_request_overflow_does_not_panic() {
        let mut r = rig().await;
        piece_file();
        handshake(&mut r).await;
        r.peer.write_all(&Request::new(0, 0, 4).data()).await.unwrap();
        serve_request(&mut r).await;
        let mut buf = [0u8; 17];
        timeout(Duration::from_secs(2), r.peer.read_exact(&mut buf)).await.unwrap().unwrap();
        r.peer.write_all(&Request::new(0, 0xFFFF_FFFF, 1).data()).await.unwrap();
        match timeout(Duration::from_secs(2), r.cmds.recv()).await {
            Ok(Some(PeerCmd::KillReq { .. })) => (),
            Ok(None) => panic!("task died without KillReq: {:?}", r.job.await),
            Ok(other) => panic!("unexpected {:?}", other),
            Err(_) => (), // ignoring the request is fine too
        }
    }

    // D7 (C09): a choked peer is not served from the cached piece
    #[tokio::test]
    async fn d7_choke_is_honoured_for_cached_piece() {
        let mut r = rig().await;
        piece_file();
        handshake(&mut r).await;
        r.peer.write_all(&Request::new(0, 0, 4).data()).await.unwrap();
        serve_request(&mut r).await;
        let mut buf = [0u8; 17];
        timeout(Duration::from_secs(2), r.peer.read_exact(&mut buf)).await.unwrap().unwrap();
        let mut m = HashMap::new();
        m.insert(r.addr.clone(), true);
        r.broad.send(BroadCmd::SendOwnState { am_choked_map: m }).unwrap();
        let mut choke = [0u8; 5];
        timeout(Duration::from_secs(2), r.peer.read_exact(&mut choke)).await.unwrap().unwrap();
        assert_eq!(choke, [0, 0, 0, 1, 0]);
        r.peer.write_all(&Request::new(0, 4, 4).data()).await.unwrap();
        // the manager (still choking) would answer Ignore
        if let Ok(Some(PeerCmd::RecvRequest { resp_ch, .. })) = timeout(Duration::from_millis(700), r.cmds.recv()).await {
            let _ = resp_ch.send(RequestCmd::Ignore);
        }
        let got = timeout(Duration::from_millis(700), r.peer.read_exact(&mut buf)).await;
        assert!(!matches!(got, Ok(Ok(_))), "choked peer was served: {:?}", buf);
    }
}
