
#[cfg(test)]
mod triage {
    use super::*;

    static ORIG: std::sync::OnceLock<std::path::PathBuf> = std::sync::OnceLock::new();

    fn sha(d: &[u8]) -> [u8; 20] {
        let mut h = sha1_smol::Sha1::new();
        h.update(d);
        h.digest().bytes()
    }

    fn torrent(name: &str, piece_len: usize, files: &[(&str, usize)], content: &[u8]) -> Metainfo {
        let mut pieces = vec![];
        for c in content.chunks(piece_len) {
            std::fs::write(utils::hash_to_string(&sha(c)) + ".piece", c).unwrap();
            pieces.extend_from_slice(&sha(c));
        }
        let mut t = Vec::new();
        t.extend_from_slice(b"d8:announce3:URL4:infod5:filesl");
        for (p, l) in files {
            t.extend_from_slice(format!("d6:lengthi{}e4:path{}:{}e", l, p.len(), p).as_bytes());
        }
        t.extend_from_slice(format!("e4:name{}:{}12:piece lengthi{}e6:pieces{}:", name.len(), name, piece_len, pieces.len()).as_bytes());
        t.extend_from_slice(&pieces);
        t.extend_from_slice(b"ee");
        Metainfo::from_bencode(&t).unwrap()
    }

    fn in_tmp(tag: &str) -> std::path::PathBuf {
        ORIG.get_or_init(|| std::env::current_dir().unwrap());
        let d = std::env::temp_dir().join(format!("rdest-triage-{}-{}", tag, std::process::id()));
        let _ = std::fs::remove_dir_all(&d);
        std::fs::create_dir_all(d.join("work")).unwrap();
        std::env::set_current_dir(d.join("work")).unwrap();
        d
    }

    // D8 (C03): a file lying inside one piece and not starting at its first byte
    // D9 (C04): parent components are not followed
    // (one test: both change the process cwd)
    #[test]
    fn d8_d9_extraction() {
        let d = in_tmp("d8");
        let (tx, _rx) = mpsc::channel(4);
        let m = torrent("dir", 16, &[("a", 3), ("b", 4), ("z", 0), ("c", 20)], b"ABCDEFGhijklmnopqrstuvwxyz0");
        Extractor::new(m, tx).extract_files().unwrap();
        assert_eq!(std::fs::read("dir/a").unwrap(), b"ABC");
        assert_eq!(std::fs::read("dir/c").unwrap(), b"hijklmnopqrstuvwxyz0");
        let b = std::fs::read("dir/b").unwrap();
        let z = std::fs::read("dir/z").unwrap();
        let d8 = if b == b"DEFG" && z.is_empty() { None } else { Some(format!("b={:?} z={:?}", String::from_utf8_lossy(&b), z.len())) };

        let (tx, _rx) = mpsc::channel(4);
        let m = torrent("dir2", 16, &[("../../escaped.txt", 3), ("ok", 4)], b"ABCDEFG");
        let _ = Extractor::new(m, tx).extract_files();
        let escaped = d.join("escaped.txt").exists();
        std::env::set_current_dir(ORIG.get().unwrap()).unwrap();
        let _ = std::fs::remove_dir_all(&d);
        assert!(d8.is_none(), "D8: wrong bytes for a file inside one piece: {:?}", d8);
        assert!(!escaped, "D9: extraction wrote outside the download directory");
    }
}
