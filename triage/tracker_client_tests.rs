
#[cfg(test)]
mod triage {
    use super::*;

    // D13 (C18): an announce URL with a query keeps its parameters
    #[test]
    fn d13_announce_query_is_kept() {
        let t = b"d8:announce19:http://t.ex/a?key=14:infod6:lengthi16e4:name1:f12:piece lengthi16e6:pieces20:AAAAAAAAAAAAAAAAAAAAee";
        let m = Metainfo::from_bencode(t).unwrap();
        let u = url::Url::parse(&TrackerClient::create_url(&m)).unwrap();
        let q: Vec<(String, String)> = u.query_pairs().map(|(a, b)| (a.to_string(), b.to_string())).collect();
        assert!(q.iter().any(|(k, v)| k == "key" && v == "1"), "{:?}", q);
        assert!(q.iter().any(|(k, _)| k == "info_hash"), "{:?}", q);
    }
}
