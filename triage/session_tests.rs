
#[cfg(test)]
mod triage {
    use super::*;
    use tokio::time::timeout;

    fn metainfo(n: usize) -> Metainfo {
        let mut t = Vec::new();
        t.extend_from_slice(format!("d8:announce3:URL4:infod6:lengthi{}e4:name1:f12:piece lengthi16e6:pieces{}:", 16 * n, 20 * n).as_bytes());
        t.extend_from_slice(&vec![b'A'; 20 * n]);
        t.extend_from_slice(b"ee");
        Metainfo::from_bencode(&t).unwrap()
    }

    // D10 (C14): bitfield-time unchokes are bounded by MAX_UNCHOKED between rotations
    #[tokio::test]
    async fn d10_unchoke_on_bitfield_is_bounded() {
        let mut s = Session::new(metainfo(8), [1; 20]);
        for i in 0..14 {
            let addr = format!("10.0.0.{}:1", i);
            let job = tokio::spawn(async {});
            s.peers.insert(addr.clone(), Peer::new(None, 8, job));
            let (tx, _rx) = oneshot::channel();
            s.handle_bitfield(&addr, &Bitfield::from_vec(&vec![true; 8]), tx).await.unwrap();
        }
        let unchoked = s.peers.values().filter(|p| !p.am_choked).count();
        assert!(unchoked <= MAX_UNCHOKED + MAX_OPTIMISTIC, "{} peers unchoked", unchoked);
    }

    // D12 (C19): a tracker failure report must not make the manager wait for the tracker task
    #[tokio::test]
    async fn d12_manager_not_blocked_by_tracker_failure() {
        let mut s = Session::new(metainfo(2), [1; 20]);
        s.tracker.job = Some(tokio::spawn(async { time::sleep(Duration::from_secs(3600)).await }));
        let r = timeout(Duration::from_secs(1), s.handle_tracker_cmd(TrackerCmd::Fail("refused".into()))).await;
        assert!(r.is_ok(), "manager blocked in kill_tracker() after a Fail message");
    }

    // D11 (C12): known findings
    #[test]
    fn d11a_double_unchoke_leaks_reservation() {
        let m = metainfo(4);
        let rt = tokio::runtime::Runtime::new().unwrap();
        let job = rt.block_on(async { tokio::spawn(async {}) });
        let mut p = Peer::new(None, 4, job);
        let mut st = vec![Status::Missing; 4];
        p.handle_unchoke(Some(0), &mut st, &m);
        p.handle_unchoke(Some(1), &mut st, &m);
        assert_eq!(p.piece_index, Some(1));
        assert_eq!(st[0], Status::Missing, "piece 0 stays {:?} although nobody fetches it", st[0]);
    }

    #[test]
    fn d11b_reserve_while_choked() {
        let m = metainfo(4);
        let rt = tokio::runtime::Runtime::new().unwrap();
        let job = rt.block_on(async { tokio::spawn(async {}) });
        let mut p = Peer::new(None, 4, job);
        let mut st = vec![Status::Missing; 4];
        // peer chokes us (initial state), a PieceDone/PieceCancel follow-up assigns piece 2 without a request
        let cmd = p.handle_piece(Some(2), &mut st, &m);
        assert!(matches!(cmd, PieceCmd::Ignore));
        assert_eq!(st[2], Status::Missing, "piece 2 is {:?} although the choking peer was not asked for it", st[2]);
    }

    // D11c (C12): a sequence of ordinary peer events must not abort the manager
    #[tokio::test]
    async fn d11c_piece_done_after_empty_unchoke_panics_manager() {
        let mut s = Session::new(metainfo(12), [1; 20]);
        for a in ["a:1", "b:1"] {
            let job = tokio::spawn(async {});
            s.peers.insert(a.to_string(), Peer::new(None, 12, job));
            let mut have = vec![false; 12];
            have[0] = true;
            let (tx, _rx) = oneshot::channel();
            s.handle_bitfield(&a.to_string(), &Bitfield::from_vec(&have), tx).await.unwrap();
        }
        let a = "a:1".to_string();
        let b = "b:1".to_string();
        let (tx, _rx) = oneshot::channel();
        s.handle_unchoke(&a, tx).await.unwrap(); // A is asked for piece 0
        assert_eq!(s.peers[&a].piece_index, Some(0));
        s.handle_choke(&a).await.unwrap(); // A chokes us: piece 0 is Missing again
        let (tx, _rx) = oneshot::channel();
        s.handle_unchoke(&b, tx).await.unwrap(); // B is asked for piece 0
        let (tx, _rx) = oneshot::channel();
        s.handle_unchoke(&a, tx).await.unwrap(); // A unchokes: nothing to assign
        assert_eq!(s.peers[&a].piece_index, None);
        // A's connection task still holds its half-filled piece 0, A answers the outstanding
        // requests, the piece verifies and the task reports PieceDone:
        let (tx, _rx) = oneshot::channel();
        let _ = s.handle_piece_done(&a, tx).await; // panics: "Piece downloaded but not requested"
    }

    // D11d (C12): same history, but piece 0 is completed by B first: A's task cancels its copy
    #[tokio::test]
    async fn d11d_piece_cancel_after_empty_unchoke_panics_manager() {
        let mut s = Session::new(metainfo(12), [1; 20]);
        for a in ["a:1", "b:1"] {
            let job = tokio::spawn(async {});
            s.peers.insert(a.to_string(), Peer::new(None, 12, job));
            let mut have = vec![false; 12];
            have[0] = true;
            let (tx, _rx) = oneshot::channel();
            s.handle_bitfield(&a.to_string(), &Bitfield::from_vec(&have), tx).await.unwrap();
        }
        let a = "a:1".to_string();
        let b = "b:1".to_string();
        let (tx, _rx) = oneshot::channel();
        s.handle_unchoke(&a, tx).await.unwrap();
        s.handle_choke(&a).await.unwrap();
        let (tx, _rx) = oneshot::channel();
        s.handle_unchoke(&b, tx).await.unwrap();
        let (tx, _rx) = oneshot::channel();
        s.handle_unchoke(&a, tx).await.unwrap();
        let (tx, _rx) = oneshot::channel();
        s.handle_piece_done(&b, tx).await.unwrap(); // B finishes piece 0 -> SendHave{0} broadcast
        // A's task still holds piece 0, sees SendHave{0}, cancels and reports PieceCancel:
        let (tx, _rx) = oneshot::channel();
        let _ = s.handle_piece_cancel(&a, tx).await; // panics: "Piece cancelled but not requested"
    }
}
