
#[cfg(test)]
mod triage {
    use super::*;
    use tokio::time::timeout;

    fn metainfo(n: usize) -> Metainfo {
        let mut t = Vec::new();
        t.extend_from_slice(format!("d8:announce3:URL4:infod6:lengthi{}e4:name1:f12:piece lengthi16e6:pieces{}:", 16 * n, 20 * n).as_bytes());
        t.extend_from_slice(&vec![b'A'; 20 * n]);
        t.extend_from_slice(b"ee");
        Metainfo::from_bencode(&t).unwrap()
    }

    // D10 (C14): bitfield-time unchokes are bounded by MAX_UNCHOKED between rotations
    #[tokio::test]
    async fn d10_unchoke_on_bitfield_is_bounded() {
        let mut s = Session::new(metainfo(8), [1; 20]);
        for i in 0..14 {
            let addr = format!("10.0.0.{}:1", i);
            let job = tokio::spawn(async {});
            s.peers.insert(addr.clone(), Peer::new(None, 8, job));
            let (tx, _rx) = oneshot::channel();
            s.handle_bitfield(&addr, &Bitfield::from_vec(&vec![true; 8]), tx).await.unwrap();
        }
        let unchoked = s.peers.values().filter(|p| !p.am_choked).count();
        assert!(unchoked <= MAX_UNCHOKED + MAX_OPTIMISTIC, "{} peers unchoked", unchoked);
    }

    // D12 (C19): a tracker failure report must not make the manager wait for the tracker task
    #[tokio::test]
    async fn d12_manager_not_blocked_by_tracker_failure() {
        let mut s = Session::new(metainfo(2), [1; 20]);
        s.tracker.job = Some(tokio::spawn(async { time::sleep(Duration::from_secs(3600)).await }));
        let r = timeout(Duration::from_secs(1), s.handle_tracker_cmd(TrackerCmd::Fail("refused".into()))).await;
        assert!(r.is_ok(), "manager blocked in kill_tracker() after a Fail message");
    }

    // D11 (C12): known findings
    #[test]
    fn d11a_double_unchoke_leaks_reservation() {
        let m = metainfo(4);
        let rt = tokio::runtime::Runtime::new().unwrap();
        let job = rt.block_on(async { tokio::spawn(async {}) });
        let mut p = Peer::new(None, 4, job);
        let mut st = vec![Status::Missing; 4];
        p.handle_unchoke(Some(0), &mut st, &m);
        p.handle_unchoke(Some(1), &mut st, &m);
        assert_eq!(p.piece_index, Some(1));
        assert_eq!(st[0], Status::Missing, "piece 0 stays {:?} although nobody fetches it", st[0]);
    }

    #[test]
    fn d11b_reserve_while_choked() {
        let m = metainfo(4);
        let rt = tokio::runtime::Runtime::new().unwrap();
        let job = rt.block_on(async { tokio::spawn(async {}) });
        let mut p = Peer::new(None, 4, job);
        let mut st = vec![Status::Missing; 4];
        // peer chokes us (initial state), a PieceDone/PieceCancel follow-up assigns piece 2 without a request
        let cmd = p.handle_piece(Some(2), &mut st, &m);
        assert!(matches!(cmd, PieceCmd::Ignore));
        assert_eq!(st[2], Status::Missing, "piece 2 is {:?} although the choking peer was not asked for it", st[2]);
    }
}
