
#[cfg(test)]
mod triage {
    use super::*;
    use tokio::io::AsyncWriteExt;
    use tokio::net::{TcpListener, TcpStream};
    use tokio::time::{timeout, Duration};

    async fn pair() -> (Connection, TcpStream) {
        let l = TcpListener::bind("127.0.0.1:0").await.unwrap();
        let addr = l.local_addr().unwrap();
        let c = TcpStream::connect(addr).await.unwrap();
        let (s, _) = l.accept().await.unwrap();
        let mut conn = Connection::new("x".to_string());
        conn.with_socket(s);
        (conn, c)
    }

    // D2 (C06): a complete message that follows a skipped unknown message is delivered
    #[tokio::test]
    async fn d2_skip_then_complete_message_is_delivered() {
        let (mut conn, mut peer) = pair().await;
        peer.write_all(&[0, 0, 0, 1, 20, 0, 0, 0, 1, 1]).await.unwrap();
        let r = timeout(Duration::from_secs(2), conn.recv_frame()).await;
        match r {
            Ok(Ok(Some(Frame::Unchoke(_)))) => (),
            Ok(other) => panic!("unexpected {:?}", other),
            Err(_) => panic!("recv_frame blocks although a complete Unchoke is buffered"),
        }
    }

    // D3 (C06): an unknown message whose body has not arrived must not panic the decoder
    #[tokio::test]
    async fn d3_unknown_id_with_missing_body_does_not_panic() {
        let (mut conn, mut peer) = pair().await;
        peer.write_all(&[0, 0, 0, 100, 20]).await.unwrap();
        let r = timeout(Duration::from_millis(700), conn.recv_frame()).await;
        assert!(r.is_err(), "decoder should keep waiting for the body");
    }

    // D4 (C06): a wrong length prefix terminates instead of stalling
    #[tokio::test]
    async fn d4_wrong_length_is_an_error() {
        let (mut conn, mut peer) = pair().await;
        peer.write_all(&[0, 0, 0, 2, 0, 0]).await.unwrap();
        let r = timeout(Duration::from_secs(2), conn.recv_frame()).await;
        match r {
            Ok(Err(_)) => (),
            Ok(other) => panic!("unexpected {:?}", other),
            Err(_) => panic!("decoder stalls on Choke with length 2"),
        }
    }
}
