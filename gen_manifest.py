#!/usr/bin/env python3
"""regenerate MANIFEST.json from the rule tables present in rules/ (keeps it valid at all times)"""
import json, os, sys
HERE = os.path.dirname(os.path.abspath(__file__))
sys.path.insert(0, os.path.join(HERE, 'engine'))
sys.path.insert(0, HERE)
import importlib

PROPS = ['C%02d' % i for i in range(1, 21)]
NA = {
    'C02': 'liveness of the whole system over all schedules, swarm configurations and fault sequences: '
           'no path/ownership/dataflow rule bounds "eventually completes"; its structural ingredients '
           '(manager panic audit, decoder totality, tracker wait-for, reservation pairing, extraction '
           'dependence) are decided under C12, C06, C19, C03 and are not relabelled as C02',
}
checks, na = [], []
for p in PROPS:
    if p in NA:
        na.append({'property_id': p, 'reason': NA[p]})
        continue
    try:
        m = importlib.import_module('rules.%s' % p)
    except ImportError:
        na.append({'property_id': p, 'reason': 'static rule table for this property is not built yet in this commit (planned: DESIGN.md section 4)'})
        continue
    doc = ' '.join((m.__doc__ or '').split())
    checks.append({
        'property_id': p,
        'quick_cmd': './check %s --tier quick' % p,
        'thorough_cmd': './check %s --tier thorough' % p,
        'evidence_file': '/verif/evidence/%s.json' % p,
        'replay_cmd_template': './check %s --replay {path}' % p,
        'engine': 'mirq',
        'level_claimed': {
            'category': 'other',
            'text': 'static analysis of the type-checked program (rustc built MIR of the current tree): ' + doc +
                    ' The check decides these structural clauses, each a necessary condition of the property, on every path of the '
                    'control-flow graph; it does not assert the behavioural statement as a whole.',
            'design_ref': 'DESIGN.md section 4, %s' % p,
        },
        'level_note': 'trusted: rustc nightly mir_built and const evaluation, engine/factgen, engine/mirq.py, the rule table rules/%s.py, '
                      'documented semantics of std/tokio/bytes/sha1_smol/url/reqwest, 64-bit target. Not decided: %s' % (p, getattr(m, 'NOT_DECIDED', '')),
        'technique': getattr(m, 'TECHNIQUE', 'static analysis: MIR path/gating, who-may-write, provenance and table-agreement rules'),
    })
man = {
    'version': 1,
    'setup_cmd': './setup.sh',
    'hooks': {
        'guard': 'rdest_verif',
        'enable': 'none needed: static analysis reads the source as built; no cfg/feature is added to rdest',
        'baseline_off_cmd': 'cd /repo && cargo test --workspace --no-fail-fast --offline',
        'source_commits': [],
        'add_only': True,
    },
    'engines': [
        {'name': 'factgen', 'path': 'engine/factgen', 'serves_properties': [c['property_id'] for c in checks],
         'kind_free_text': 'rustc_private driver (nightly) dumping built MIR, evaluated constants, ADTs and impls of /repo as JSON facts'},
        {'name': 'mirq', 'path': 'engine/mirq.py', 'serves_properties': [c['property_id'] for c in checks],
         'kind_free_text': 'Python rule library: feasible CFG reachability with edge/block cuts, symbolic expressions, outcome edges, call graph, panic sites; per-property rule tables in rules/'},
    ],
    'checks': checks,
    'not_applicable': na,
    'notes': 'Technique family: static analysis only. Exit 0 = all obligations discharged or matched by an open known finding '
             '(known_findings.json); exit 1 + VIOLATION lines = new violation; exit 2 = tree not analysable (does not compile).',
}
json.dump(man, open(os.path.join(HERE, 'MANIFEST.json'), 'w'), indent=1)
print('claimed:', [c['property_id'] for c in checks])
