// factgen: a rustc_private driver that dumps the *built* MIR (pre-borrowck, one Call
// terminator per source call, `?`/match/await/select! fully visible) of every body owner of
// the crate being compiled, together with evaluated constants, ADT layouts and the impl
// table, as one JSON fact file per crate target.
//
// Used as RUSTC_WORKSPACE_WRAPPER under `cargo +nightly check`; argv[1] (the real rustc
// path supplied by cargo) is dropped.  Facts are written to $FACTGEN_OUT/<crate>-<kind>.json
// with a single write per process.
#![feature(rustc_private)]
#![feature(box_patterns)]

extern crate rustc_abi;
extern crate rustc_driver;
extern crate rustc_hir;
extern crate rustc_interface;
extern crate rustc_middle;
extern crate rustc_session;
extern crate rustc_span;

use rustc_driver::{Callbacks, Compilation};
use rustc_hir::def::DefKind;
use rustc_hir::def_id::{DefId, LocalDefId};
use rustc_interface::interface::Compiler;
use rustc_middle::mir::{
    self, AggregateKind, BasicBlockData, Body, Const, ConstValue, Operand, Place, PlaceElem,
    Rvalue, StatementKind, TerminatorKind, VarDebugInfoContents,
};
use rustc_middle::ty::{self, Ty, TyCtxt, TyKind, TypingEnv};
use rustc_span::Span;
use std::fmt::Write as _;

// ------------------------------------------------------------------------------------------
// tiny JSON writer
// ------------------------------------------------------------------------------------------
fn esc(s: &str) -> String {
    let mut o = String::with_capacity(s.len() + 2);
    o.push('"');
    for c in s.chars() {
        match c {
            '"' => o.push_str("\\\""),
            '\\' => o.push_str("\\\\"),
            '\n' => o.push_str("\\n"),
            '\r' => o.push_str("\\r"),
            '\t' => o.push_str("\\t"),
            c if (c as u32) < 0x20 => {
                let _ = write!(o, "\\u{:04x}", c as u32);
            }
            c => o.push(c),
        }
    }
    o.push('"');
    o
}

struct Obj(String, bool);
impl Obj {
    fn new() -> Obj {
        Obj(String::from("{"), true)
    }
    fn raw(&mut self, k: &str, v: &str) -> &mut Self {
        if !self.1 {
            self.0.push(',');
        }
        self.1 = false;
        self.0.push_str(&esc(k));
        self.0.push(':');
        self.0.push_str(v);
        self
    }
    fn s(&mut self, k: &str, v: &str) -> &mut Self {
        let e = esc(v);
        self.raw(k, &e)
    }
    fn n(&mut self, k: &str, v: i128) -> &mut Self {
        self.raw(k, &v.to_string())
    }
    fn b(&mut self, k: &str, v: bool) -> &mut Self {
        self.raw(k, if v { "true" } else { "false" })
    }
    fn end(&mut self) -> String {
        let mut s = std::mem::take(&mut self.0);
        s.push('}');
        s
    }
}

fn arr(items: Vec<String>) -> String {
    let mut s = String::from("[");
    s.push_str(&items.join(","));
    s.push(']');
    s
}

// ------------------------------------------------------------------------------------------
struct Ctx<'tcx> {
    tcx: TyCtxt<'tcx>,
}

impl<'tcx> Ctx<'tcx> {
    fn loc(&self, sp: Span) -> (String, usize, usize) {
        let sm = self.tcx.sess.source_map();
        let lo = sm.lookup_char_pos(sp.lo());
        let hi = sm.lookup_char_pos(sp.hi());
        let name = format!("{}", lo.file.name.prefer_local_unconditionally());
        (name, lo.line, hi.line)
    }

    fn span_json(&self, sp: Span) -> String {
        // macro-expanded code: record the call site in the user's file and the macro name
        let mut o = Obj::new();
        let root = sp.source_callsite();
        let (f, l, h) = self.loc(root);
        o.s("f", &f).n("l", l as i128).n("h", h as i128);
        if sp.from_expansion() {
            let ed = sp.ctxt().outer_expn_data();
            let name = match ed.kind {
                rustc_span::ExpnKind::Macro(_, n) => format!("macro:{}", n),
                rustc_span::ExpnKind::Desugaring(d) => format!("desugar:{:?}", d),
                rustc_span::ExpnKind::AstPass(p) => format!("astpass:{:?}", p),
                rustc_span::ExpnKind::Root => "root".to_string(),
            };
            o.s("x", &name);
            // the outermost macro (e.g. tokio::select) is also useful
            let mut cur = sp;
            let mut outer = String::new();
            let mut guard = 0;
            while cur.from_expansion() && guard < 64 {
                let ed = cur.ctxt().outer_expn_data();
                if let rustc_span::ExpnKind::Macro(_, n) = ed.kind {
                    outer = n.to_string();
                }
                cur = ed.call_site;
                guard += 1;
            }
            if !outer.is_empty() {
                o.s("xo", &outer);
            }
        }
        o.end()
    }

    fn ty_s(&self, t: Ty<'tcx>) -> String {
        format!("{}", t)
    }

    fn place(&self, body: &Body<'tcx>, p: &Place<'tcx>) -> String {
        let mut o = Obj::new();
        o.n("l", p.local.as_usize() as i128);
        if !p.projection.is_empty() {
            let mut projs = vec![];
            let mut cur_ty = mir::PlaceTy::from_ty(body.local_decls[p.local].ty);
            for elem in p.projection.iter() {
                let mut e = Obj::new();
                match elem {
                    PlaceElem::Deref => {
                        e.s("k", "deref");
                    }
                    PlaceElem::Field(f, fty) => {
                        e.s("k", "field").n("i", f.as_usize() as i128);
                        e.s("ty", &self.ty_s(fty));
                        // field name, if the base is an ADT
                        if let TyKind::Adt(adt, _) = cur_ty.ty.kind() {
                            let vidx = cur_ty.variant_index.unwrap_or(rustc_abi::FIRST_VARIANT);
                            if adt.is_enum() || adt.is_struct() || adt.is_union() {
                                if vidx.as_usize() < adt.variants().len() {
                                    let v = adt.variant(vidx);
                                    if f.as_usize() < v.fields.len() {
                                        e.s("n", v.fields[f].name.as_str());
                                    }
                                    if adt.is_enum() {
                                        e.s("v", v.name.as_str());
                                    }
                                }
                            }
                            e.s("adt", &self.tcx.def_path_str(adt.did()));
                        }
                    }
                    PlaceElem::Index(l) => {
                        e.s("k", "index").n("l", l.as_usize() as i128);
                    }
                    PlaceElem::ConstantIndex { offset, min_length, from_end } => {
                        e.s("k", "cindex")
                            .n("off", offset as i128)
                            .n("min", min_length as i128)
                            .b("from_end", from_end);
                    }
                    PlaceElem::Subslice { from, to, from_end } => {
                        e.s("k", "subslice")
                            .n("from", from as i128)
                            .n("to", to as i128)
                            .b("from_end", from_end);
                    }
                    PlaceElem::Downcast(name, vidx) => {
                        e.s("k", "downcast").n("vi", vidx.as_usize() as i128);
                        if let Some(n) = name {
                            e.s("v", n.as_str());
                        }
                    }
                    PlaceElem::OpaqueCast(t) => {
                        e.s("k", "opaque").s("ty", &self.ty_s(t));
                    }
                    _ => {
                        e.s("k", "other").s("dbg", &format!("{:?}", elem));
                    }
                }
                projs.push(e.end());
                cur_ty = cur_ty.projection_ty(self.tcx, elem);
            }
            o.raw("p", &arr(projs));
        }
        o.end()
    }

    fn bytes_of_const(&self, val: ConstValue, ty: Ty<'tcx>) -> Option<Vec<u8>> {
        // &str / &[u8] slices
        // (a named `const K: &[u8] = b"..";` evaluates to an indirect value, a literal to a slice value)
        if let TyKind::Ref(_, inner, _) = ty.kind() {
            let ok = match inner.kind() {
                TyKind::Str => true,
                TyKind::Slice(e) => *e == self.tcx.types.u8,
                _ => false,
            };
            if ok {
                if let ConstValue::Slice { .. } | ConstValue::Indirect { .. } = &val {
                    if let Some(b) = val.try_get_slice_bytes_for_diagnostics(self.tcx) {
                        return Some(b.to_vec());
                    }
                }
                return None;
            }
        }
        // &[u8; N]
        if let TyKind::Ref(_, inner, _) = ty.kind() {
            if let TyKind::Array(elem, len) = inner.kind() {
                if *elem == self.tcx.types.u8 {
                    if let ConstValue::Scalar(mir::interpret::Scalar::Ptr(ptr, _)) = val {
                        let n = len.try_to_target_usize(self.tcx)?;
                        let (prov, off) = ptr.prov_and_relative_offset();
                        let alloc = self.tcx.global_alloc(prov.alloc_id());
                        if let mir::interpret::GlobalAlloc::Memory(a) = alloc {
                            let a = a.inner();
                            let start = off.bytes() as usize;
                            let end = start + n as usize;
                            if end <= a.len() {
                                let b = a.inspect_with_uninit_and_ptr_outside_interpreter(start..end);
                                return Some(b.to_vec());
                            }
                        }
                    }
                }
            }
        }
        None
    }

    fn const_json(&self, owner: DefId, c: &Const<'tcx>) -> String {
        let tcx = self.tcx;
        let mut o = Obj::new();
        let ty = c.ty();
        o.s("ty", &self.ty_s(ty));
        // function items
        if let TyKind::FnDef(did, args) = ty.kind() {
            o.s("fn", &tcx.def_path_str(*did));
            o.s("fn_full", &tcx.def_path_str_with_args(*did, args));
            return o.end();
        }
        if let TyKind::Closure(did, _) | TyKind::Coroutine(did, _) | TyKind::CoroutineClosure(did, _) = ty.kind() {
            o.s("closure", &tcx.def_path_str(*did));
        }
        // named const?
        if let Const::Unevaluated(u, _) = c {
            if u.promoted.is_none() {
                o.s("def", &tcx.def_path_str(u.def));
            } else {
                o.b("promoted", true);
            }
        }
        let env = TypingEnv::post_analysis(tcx, owner);
        if let Some(si) = c.try_eval_scalar_int(tcx, env) {
            let size = si.size();
            let bits = si.to_bits(size);
            let signed = matches!(ty.kind(), TyKind::Int(_));
            if signed {
                let v = size.sign_extend(bits) as i128;
                o.raw("val", &v.to_string());
            } else {
                o.raw("val", &bits.to_string());
            }
            if ty.is_bool() {
                o.b("bool", bits != 0);
            }
            if ty.is_char() {
                if let Some(ch) = char::from_u32(bits as u32) {
                    o.s("char", &ch.to_string());
                }
            }
        } else {
            // try full evaluation for byte / str literals
            let r = c.eval(tcx, env, rustc_span::DUMMY_SP);
            if let Ok(v) = r {
                if let Some(b) = self.bytes_of_const(v, ty) {
                    let items: Vec<String> = b.iter().map(|x| x.to_string()).collect();
                    o.raw("bytes", &arr(items));
                    if let Ok(s) = std::str::from_utf8(&b) {
                        o.s("str", s);
                    }
                }
            }
        }
        o.end()
    }

    fn operand(&self, owner: DefId, body: &Body<'tcx>, op: &Operand<'tcx>) -> String {
        let mut o = Obj::new();
        match op {
            Operand::Copy(p) => {
                o.raw("cp", &self.place(body, p));
            }
            Operand::Move(p) => {
                o.raw("mv", &self.place(body, p));
            }
            Operand::Constant(box c) => {
                o.raw("c", &self.const_json(owner, &c.const_));
            }
            #[allow(unreachable_patterns)]
            _ => {
                o.s("other", &format!("{:?}", op));
            }
        }
        o.end()
    }

    fn rvalue(&self, owner: DefId, body: &Body<'tcx>, rv: &Rvalue<'tcx>) -> String {
        let tcx = self.tcx;
        let mut o = Obj::new();
        match rv {
            Rvalue::Use(op, ..) => {
                o.s("k", "use").raw("op", &self.operand(owner, body, op));
            }
            Rvalue::Repeat(op, n) => {
                o.s("k", "repeat").raw("op", &self.operand(owner, body, op));
                if let Some(v) = n.try_to_target_usize(tcx) {
                    o.n("n", v as i128);
                }
            }
            Rvalue::Ref(_, bk, p) => {
                o.s("k", "ref")
                    .b("mut", matches!(bk, mir::BorrowKind::Mut { .. }))
                    .raw("place", &self.place(body, p));
            }
            Rvalue::RawPtr(_, p) => {
                o.s("k", "rawptr").raw("place", &self.place(body, p));
            }
            Rvalue::Cast(kind, op, ty) => {
                o.s("k", "cast")
                    .s("ck", &format!("{:?}", kind))
                    .raw("op", &self.operand(owner, body, op))
                    .s("ty", &self.ty_s(*ty));
            }
            Rvalue::BinaryOp(bop, box (a, b)) => {
                o.s("k", "binop")
                    .s("op", &format!("{:?}", bop))
                    .raw("a", &self.operand(owner, body, a))
                    .raw("b", &self.operand(owner, body, b));
            }
            Rvalue::UnaryOp(uop, a) => {
                o.s("k", "unop")
                    .s("op", &format!("{:?}", uop))
                    .raw("a", &self.operand(owner, body, a));
            }
            Rvalue::Discriminant(p) => {
                o.s("k", "discr").raw("place", &self.place(body, p));
                let pty = p.ty(&body.local_decls, tcx).ty;
                o.s("ty", &self.ty_s(pty));
            }
            Rvalue::Aggregate(box kind, ops) => {
                o.s("k", "agg");
                match kind {
                    AggregateKind::Array(t) => {
                        o.s("ak", "array").s("ety", &self.ty_s(*t));
                    }
                    AggregateKind::Tuple => {
                        o.s("ak", "tuple");
                    }
                    AggregateKind::Adt(did, vidx, _args, _, _) => {
                        let adt = tcx.adt_def(*did);
                        o.s("ak", "adt").s("adt", &tcx.def_path_str(*did));
                        let v = adt.variant(*vidx);
                        o.s("v", v.name.as_str()).n("vi", vidx.as_usize() as i128);
                        let names: Vec<String> =
                            v.fields.iter().map(|f| esc(f.name.as_str())).collect();
                        o.raw("fields", &arr(names));
                    }
                    AggregateKind::Closure(did, _) => {
                        o.s("ak", "closure").s("def", &tcx.def_path_str(*did));
                    }
                    AggregateKind::Coroutine(did, _) => {
                        o.s("ak", "coroutine").s("def", &tcx.def_path_str(*did));
                    }
                    AggregateKind::CoroutineClosure(did, _) => {
                        o.s("ak", "coroutine_closure").s("def", &tcx.def_path_str(*did));
                    }
                    AggregateKind::RawPtr(..) => {
                        o.s("ak", "rawptr");
                    }
                }
                let items: Vec<String> =
                    ops.iter().map(|x| self.operand(owner, body, x)).collect();
                o.raw("ops", &arr(items));
            }
            Rvalue::CopyForDeref(p) => {
                o.s("k", "use");
                let mut oo = Obj::new();
                oo.raw("cp", &self.place(body, p));
                o.raw("op", &oo.end());
            }
            _ => {
                o.s("k", "other").s("dbg", &format!("{:?}", rv));
            }
        }
        o.end()
    }

    fn block(&self, owner: DefId, body: &Body<'tcx>, bb: &BasicBlockData<'tcx>) -> String {
        let tcx = self.tcx;
        let mut stmts = vec![];
        for st in bb.statements.iter() {
            match &st.kind {
                StatementKind::Assign(box (place, rv)) => {
                    let mut o = Obj::new();
                    o.s("k", "assign")
                        .raw("lhs", &self.place(body, place))
                        .raw("rv", &self.rvalue(owner, body, rv))
                        .raw("sp", &self.span_json(st.source_info.span));
                    stmts.push(o.end());
                }
                StatementKind::SetDiscriminant { place, variant_index } => {
                    let mut o = Obj::new();
                    o.s("k", "setdiscr")
                        .raw("lhs", &self.place(body, place))
                        .n("vi", variant_index.as_usize() as i128)
                        .raw("sp", &self.span_json(st.source_info.span));
                    stmts.push(o.end());
                }
                _ => {}
            }
        }
        let mut t = Obj::new();
        if let Some(term) = &bb.terminator {
            t.raw("sp", &self.span_json(term.source_info.span));
            match &term.kind {
                TerminatorKind::Goto { target } => {
                    t.s("k", "goto").n("t", target.as_usize() as i128);
                }
                TerminatorKind::SwitchInt { discr, targets } => {
                    t.s("k", "switch").raw("d", &self.operand(owner, body, discr));
                    let dty = discr.ty(&body.local_decls, tcx);
                    t.s("dty", &self.ty_s(dty));
                    let mut ts = vec![];
                    for (v, b) in targets.iter() {
                        ts.push(format!("[{},{}]", v, b.as_usize()));
                    }
                    t.raw("ts", &arr(ts));
                    t.n("o", targets.otherwise().as_usize() as i128);
                }
                TerminatorKind::Return => {
                    t.s("k", "return");
                }
                TerminatorKind::Unreachable => {
                    t.s("k", "unreachable");
                }
                TerminatorKind::UnwindResume => {
                    t.s("k", "resume");
                }
                TerminatorKind::UnwindTerminate(_) => {
                    t.s("k", "terminate");
                }
                TerminatorKind::Drop { place, target, .. } => {
                    t.s("k", "drop")
                        .raw("place", &self.place(body, place))
                        .n("t", target.as_usize() as i128);
                }
                TerminatorKind::Call { func, args, destination, target, fn_span, .. } => {
                    t.s("k", "call");
                    t.raw("func", &self.operand(owner, body, func));
                    // resolved callee
                    let fty = func.ty(&body.local_decls, tcx);
                    if let TyKind::FnDef(did, gargs) = fty.kind() {
                        t.s("callee", &tcx.def_path_str(*did));
                        t.s("callee_full", &tcx.def_path_str_with_args(*did, gargs));
                        t.b("local", did.is_local());
                        if let Some(assoc) = tcx.opt_associated_item(*did) {
                            let cont = assoc.container_id(tcx);
                            match tcx.def_kind(cont) {
                                DefKind::Trait => {
                                    t.s("trait", &tcx.def_path_str(cont));
                                    if gargs.len() > 0 {
                                        if let Some(st) = gargs[0].as_type() {
                                            t.s("self_ty", &self.ty_s(st));
                                        }
                                    }
                                }
                                DefKind::Impl { .. } => {
                                    let st = tcx.type_of(cont).instantiate_identity().skip_norm_wip();
                                    t.s("self_ty", &self.ty_s(st));
                                }
                                _ => {}
                            }
                            t.s("name", assoc.name().as_str());
                        } else {
                            t.s("name", tcx.item_name(*did).as_str());
                        }
                        // resolve trait method calls to their impl where possible
                        let env = TypingEnv::post_analysis(tcx, owner);
                        if let Ok(Some(inst)) = ty::Instance::try_resolve(tcx, env, *did, gargs) {
                            let rd = inst.def_id();
                            if rd != *did {
                                t.s("resolved", &tcx.def_path_str(rd));
                                t.b("resolved_local", rd.is_local());
                            }
                        }
                        let gs: Vec<String> = gargs
                            .iter()
                            .map(|g| esc(&format!("{}", g)))
                            .collect();
                        t.raw("gargs", &arr(gs));
                    }
                    let items: Vec<String> =
                        args.iter().map(|x| self.operand(owner, body, &x.node)).collect();
                    t.raw("args", &arr(items));
                    t.raw("dest", &self.place(body, destination));
                    if let Some(tg) = target {
                        t.n("t", tg.as_usize() as i128);
                    }
                    t.raw("fsp", &self.span_json(*fn_span));
                }
                TerminatorKind::Assert { cond, expected, msg, target, .. } => {
                    t.s("k", "assert")
                        .raw("cond", &self.operand(owner, body, cond))
                        .b("expected", *expected)
                        .n("t", target.as_usize() as i128);
                    let kind = match &**msg {
                        mir::AssertKind::BoundsCheck { .. } => "bounds".to_string(),
                        mir::AssertKind::Overflow(op, ..) => format!("overflow:{:?}", op),
                        mir::AssertKind::OverflowNeg(..) => "overflow:Neg".to_string(),
                        mir::AssertKind::DivisionByZero(..) => "div_zero".to_string(),
                        mir::AssertKind::RemainderByZero(..) => "rem_zero".to_string(),
                        other => format!("other:{:?}", other),
                    };
                    t.s("msg", &kind);
                    let mut ops = vec![];
                    match &**msg {
                        mir::AssertKind::BoundsCheck { len, index } => {
                            ops.push(self.operand(owner, body, len));
                            ops.push(self.operand(owner, body, index));
                        }
                        mir::AssertKind::Overflow(_, a, b) => {
                            ops.push(self.operand(owner, body, a));
                            ops.push(self.operand(owner, body, b));
                        }
                        mir::AssertKind::DivisionByZero(a) | mir::AssertKind::RemainderByZero(a) => {
                            ops.push(self.operand(owner, body, a));
                        }
                        _ => {}
                    }
                    t.raw("mops", &arr(ops));
                }
                TerminatorKind::Yield { value, resume, .. } => {
                    t.s("k", "yield")
                        .raw("value", &self.operand(owner, body, value))
                        .n("t", resume.as_usize() as i128);
                }
                TerminatorKind::CoroutineDrop => {
                    t.s("k", "coroutine_drop");
                }
                TerminatorKind::FalseEdge { real_target, imaginary_target } => {
                    t.s("k", "falseedge")
                        .n("t", real_target.as_usize() as i128)
                        .n("imag", imaginary_target.as_usize() as i128);
                }
                TerminatorKind::FalseUnwind { real_target, .. } => {
                    t.s("k", "falseunwind").n("t", real_target.as_usize() as i128);
                }
                other => {
                    t.s("k", "other").s("dbg", &format!("{:?}", other));
                }
            }
        } else {
            t.s("k", "none");
        }
        let mut o = Obj::new();
        o.raw("s", &arr(stmts)).raw("t", &t.end()).b("cleanup", bb.is_cleanup);
        o.end()
    }

    fn body_json(&self, ldid: LocalDefId, body: &Body<'tcx>) -> String {
        let tcx = self.tcx;
        let did = ldid.to_def_id();
        let mut o = Obj::new();
        o.s("path", &tcx.def_path_str(did));
        o.s("kind", &format!("{:?}", tcx.def_kind(did)));
        if tcx.is_closure_like(did) {
            o.s("parent", &tcx.def_path_str(tcx.parent(did)));
        }
        if let Some(ck) = tcx.coroutine_kind(did) {
            o.s("coroutine", &format!("{:?}", ck));
        }
        // impl self type / trait for associated fns
        if let Some(assoc) = tcx.opt_associated_item(did) {
            let cont = assoc.container_id(tcx);
            if let DefKind::Impl { .. } = tcx.def_kind(cont) {
                let st = tcx.type_of(cont).instantiate_identity().skip_norm_wip();
                o.s("self_ty", &self.ty_s(st));
                if let Some(tr) = tcx.impl_opt_trait_ref(cont) {
                    let tr = tr.instantiate_identity().skip_norm_wip();
                    o.s("trait", &tcx.def_path_str(tr.def_id));
                }
            }
            o.s("name", assoc.name().as_str());
        } else if matches!(tcx.def_kind(did), DefKind::Fn) {
            o.s("name", tcx.item_name(did).as_str());
        }
        o.raw("sp", &self.span_json(body.span));
        o.n("argc", body.arg_count as i128);
        let mut locals = vec![];
        for (_l, d) in body.local_decls.iter_enumerated() {
            let mut lo = Obj::new();
            lo.s("ty", &self.ty_s(d.ty));
            lo.b("user", d.is_user_variable());
            locals.push(lo.end());
        }
        o.raw("locals", &arr(locals));
        let mut vdi = vec![];
        for v in body.var_debug_info.iter() {
            let mut vo = Obj::new();
            vo.s("n", v.name.as_str());
            match &v.value {
                VarDebugInfoContents::Place(p) => {
                    vo.raw("place", &self.place(body, p));
                }
                VarDebugInfoContents::Const(c) => {
                    vo.raw("c", &self.const_json(did, &c.const_));
                }
            }
            if let Some(a) = v.argument_index {
                vo.n("arg", a as i128);
            }
            vdi.push(vo.end());
        }
        o.raw("vars", &arr(vdi));
        let mut blocks = vec![];
        for (_bb, data) in body.basic_blocks.iter_enumerated() {
            blocks.push(self.block(did, body, data));
        }
        o.raw("blocks", &arr(blocks));
        o.end()
    }

    fn adts_json(&self) -> String {
        let tcx = self.tcx;
        let mut out = vec![];
        for id in tcx.hir_crate_items(()).definitions() {
            let did = id.to_def_id();
            match tcx.def_kind(did) {
                DefKind::Struct | DefKind::Enum | DefKind::Union => {
                    let adt = tcx.adt_def(did);
                    let mut o = Obj::new();
                    o.s("path", &tcx.def_path_str(did));
                    o.s("kind", &format!("{:?}", tcx.def_kind(did)));
                    o.raw("sp", &self.span_json(tcx.def_span(did)));
                    let mut vs = vec![];
                    for (vidx, v) in adt.variants().iter_enumerated() {
                        let mut vo = Obj::new();
                        vo.s("name", v.name.as_str());
                        vo.n("vi", vidx.as_usize() as i128);
                        if adt.is_enum() {
                            let d = adt.discriminant_for_variant(tcx, vidx);
                            vo.raw("discr", &d.val.to_string());
                        }
                        let mut fs = vec![];
                        for f in v.fields.iter() {
                            let mut fo = Obj::new();
                            fo.s("name", f.name.as_str());
                            let fty = tcx.type_of(f.did).instantiate_identity().skip_norm_wip();
                            fo.s("ty", &self.ty_s(fty));
                            fs.push(fo.end());
                        }
                        vo.raw("fields", &arr(fs));
                        vs.push(vo.end());
                    }
                    o.raw("variants", &arr(vs));
                    out.push(o.end());
                }
                _ => {}
            }
        }
        arr(out)
    }

    fn consts_json(&self) -> String {
        let tcx = self.tcx;
        let mut out = vec![];
        for id in tcx.hir_crate_items(()).definitions() {
            let did = id.to_def_id();
            match tcx.def_kind(did) {
                DefKind::Const { .. } | DefKind::AssocConst { .. } => {
                    // skip trait-declared consts without a value and generic consts
                    if tcx.generics_of(did).requires_monomorphization(tcx) {
                        continue;
                    }
                    if let DefKind::AssocConst { .. } = tcx.def_kind(did) {
                        if let Some(a) = tcx.opt_associated_item(did) {
                            if !a.defaultness(tcx).has_value() {
                                continue;
                            }
                        }
                    }
                    let mut o = Obj::new();
                    o.s("path", &tcx.def_path_str(did));
                    let ty = tcx.type_of(did).instantiate_identity().skip_norm_wip();
                    o.s("ty", &self.ty_s(ty));
                    o.raw("sp", &self.span_json(tcx.def_span(did)));
                    if let Ok(v) = tcx.const_eval_poly(did) {
                        if let Some(si) = v.try_to_scalar_int() {
                            let size = si.size();
                            let bits = si.to_bits(size);
                            if matches!(ty.kind(), TyKind::Int(_)) {
                                o.raw("val", &(size.sign_extend(bits) as i128).to_string());
                            } else {
                                o.raw("val", &bits.to_string());
                            }
                        } else if let Some(b) = self.bytes_of_const(v, ty) {
                            let items: Vec<String> = b.iter().map(|x| x.to_string()).collect();
                            o.raw("bytes", &arr(items));
                        }
                    }
                    out.push(o.end());
                }
                _ => {}
            }
        }
        arr(out)
    }

    fn impls_json(&self) -> String {
        let tcx = self.tcx;
        let mut out = vec![];
        for id in tcx.hir_crate_items(()).definitions() {
            let did = id.to_def_id();
            if let DefKind::Impl { .. } = tcx.def_kind(did) {
                let mut o = Obj::new();
                let st = tcx.type_of(did).instantiate_identity().skip_norm_wip();
                o.s("self_ty", &self.ty_s(st));
                if let Some(tr) = tcx.impl_opt_trait_ref(did) {
                    let tr = tr.instantiate_identity().skip_norm_wip();
                    o.s("trait", &tcx.def_path_str(tr.def_id));
                }
                let mut ms = vec![];
                for item in tcx.associated_items(did).in_definition_order() {
                    let mut mo = Obj::new();
                    mo.s("name", item.name().as_str());
                    mo.s("path", &tcx.def_path_str(item.def_id));
                    mo.s("kind", &format!("{:?}", tcx.def_kind(item.def_id)));
                    ms.push(mo.end());
                }
                o.raw("items", &arr(ms));
                out.push(o.end());
            }
        }
        arr(out)
    }
}

struct Cb;

impl Callbacks for Cb {
    fn after_expansion<'tcx>(&mut self, _c: &Compiler, tcx: TyCtxt<'tcx>) -> Compilation {
        let out_dir = match std::env::var("FACTGEN_OUT") {
            Ok(v) => v,
            Err(_) => return Compilation::Continue,
        };
        let krate = tcx.crate_name(rustc_hir::def_id::LOCAL_CRATE).to_string();
        let only = std::env::var("FACTGEN_CRATE").unwrap_or_else(|_| "rdest".to_string());
        if krate != only {
            return Compilation::Continue;
        }
        let kinds: Vec<String> =
            tcx.crate_types().iter().map(|k| format!("{:?}", k).to_lowercase()).collect();
        let is_test = tcx.sess.opts.test;
        let kind = if is_test {
            format!("test-{}", kinds.join("-"))
        } else {
            kinds.join("-")
        };
        let cx = Ctx { tcx };
        // Pass 1: clone every built body before issuing any query that could trigger
        // borrowck (type_of on an opaque async return type, const evaluation) and thereby
        // steal mir_built.
        let mut bodies: Vec<(LocalDefId, Body<'tcx>)> = vec![];
        for ldid in tcx.hir_body_owners() {
            let dk = tcx.def_kind(ldid.to_def_id());
            match dk {
                DefKind::Fn | DefKind::AssocFn | DefKind::Closure => {}
                // consts / statics / anon consts have bodies too; their values are in "consts"
                _ => continue,
            }
            let b = tcx.mir_built(ldid).borrow().clone();
            bodies.push((ldid, b));
        }
        let mut fns = vec![];
        for (ldid, body) in bodies.iter() {
            fns.push(cx.body_json(*ldid, body));
        }
        let mut o = Obj::new();
        o.s("crate", &krate).s("kind", &kind);
        o.s("tree_hash", &std::env::var("FACTGEN_TREE_HASH").unwrap_or_default());
        o.s("profile", &std::env::var("FACTGEN_PROFILE").unwrap_or_default());
        o.b("overflow_checks", tcx.sess.overflow_checks());
        o.raw("fns", &arr(fns));
        o.raw("adts", &cx.adts_json());
        o.raw("consts", &cx.consts_json());
        o.raw("impls", &cx.impls_json());
        let text = o.end();
        let path = format!("{}/{}-{}.json", out_dir, krate, kind);
        let tmp = format!("{}.tmp{}", path, std::process::id());
        std::fs::write(&tmp, text).expect("factgen: cannot write facts");
        std::fs::rename(&tmp, &path).expect("factgen: cannot rename facts");
        Compilation::Continue
    }
}

fn main() {
    let mut args: Vec<String> = std::env::args().collect();
    // RUSTC_WORKSPACE_WRAPPER passes the real rustc as argv[1]
    if args.len() > 1 && (args[1].ends_with("rustc") || args[1].contains("/rustc")) {
        args.remove(1);
    }
    let mut cb = Cb;
    rustc_driver::run_compiler(&args, &mut cb);
}
