"""mirq -- query library over the MIR fact files produced by engine/factgen.

Everything here is static: it loads the JSON dump of rustc's *built* MIR for /repo and offers
CFG queries (feasible reachability with constant tracking, edge/block cuts), a symbolic
expression view of operands (near-source expressions built by following single definitions),
outcome edges of Result/Option/bool valued calls (including `.await` and `?`), the call
graph over resolved callees, and a panic-site enumerator.  No rdest code is executed.
"""
import json
import re
from collections import defaultdict


class AnchorMissing(Exception):
    pass


# ------------------------------------------------------------------------------------------
# expressions
# ------------------------------------------------------------------------------------------
# An expression is a tuple whose first element is the node kind:
#   ('const', val, defpath|None, ty)        literal or named constant
#   ('str', text) / ('bytes', tuple)        string / byte-string literal
#   ('fn', path)                            function item
#   ('var', name)                           parameter / multiply-assigned user variable
#   ('tmp', n)                              unresolved temporary
#   ('field', base, name)                   field projection (derefs are dropped)
#   ('variant', base, name)                 downcast
#   ('index', base, idx)                    indexing
#   ('ref', e) is dropped (transparent)
#   ('call', callee, args(tuple), bb, info) call; bb identifies the call site in its function
#   ('binop', op, a, b) / ('unop', op, a) / ('cast', e, ty)
#   ('agg', kind, name, variant, fields(tuple of (fname, e)))
#   ('discr', e, ty) / ('len', e)
#   ('await', e) / ('try', e)               value of `e.await` / of `e?`
#   ('phi', alts(tuple))                    several reaching definitions
#   ('closure', defpath, captures)
#   ('other', text)

TRANSPARENT_CALLS = {
    'std::future::IntoFuture::into_future',
    'std::pin::Pin::<Ptr>::new_unchecked',
    'std::pin::Pin::<&'"'"'a mut T>::new_unchecked',
    'std::ops::Deref::deref',
    'std::ops::DerefMut::deref_mut',
    'std::convert::AsRef::as_ref',
    'std::convert::AsMut::as_mut',
    'std::borrow::Borrow::borrow',
    'std::borrow::BorrowMut::borrow_mut',
}

# calls whose result "is" (a view / copy of) their first argument for provenance purposes
PASSTHROUGH_NAMES = {
    'clone', 'to_vec', 'to_owned', 'as_slice', 'as_mut_slice', 'as_ref', 'as_mut', 'into',
    'from', 'as_str', 'as_bytes', 'to_string', 'into_iter', 'iter', 'iter_mut', 'borrow',
    'deref', 'deref_mut', 'as_path', 'to_path_buf', 'into_bytes', 'as_mut_ptr',
}


def short(path):
    """last two segments of a def path (Type::item) for display"""
    if path is None:
        return None
    parts = split_path(path)
    return '::'.join(parts[-2:]) if len(parts) >= 2 else path


def split_path(path):
    parts, depth, cur = [], 0, ''
    i = 0
    while i < len(path):
        c = path[i]
        if c in '<([{':
            depth += 1
        elif c in '>)]}':
            depth -= 1
        if c == ':' and depth == 0 and path[i:i + 2] == '::':
            parts.append(cur)
            cur = ''
            i += 2
            continue
        cur += c
        i += 1
    parts.append(cur)
    return parts


def show(e, depth=0):
    if depth > 40:
        return '...'
    k = e[0]
    d = depth + 1
    if k == 'const':
        if e[2]:
            return e[2]
        if e[3] == 'bool':
            return 'true' if e[1] else 'false'
        return str(e[1])
    if k == 'str':
        return json.dumps(e[1])
    if k == 'bytes':
        try:
            return 'b' + json.dumps(bytes(e[1]).decode('latin1'))
        except Exception:
            return 'b[..]'
    if k == 'fn':
        return 'fn:' + e[1]
    if k in ('var', 'mvar'):
        return e[1]
    if k == 'tmp':
        return '_%d' % e[1]
    if k == 'field':
        return '%s.%s' % (show(e[1], d), e[2])
    if k == 'variant':
        return '%s<%s>' % (show(e[1], d), e[2])
    if k == 'index':
        return '%s[%s]' % (show(e[1], d), show(e[2], d))
    if k == 'call':
        return '%s(%s)' % (e[1], ', '.join(show(a, d) for a in e[2]))
    if k == 'binop':
        return '%s(%s, %s)' % (e[1], show(e[2], d), show(e[3], d))
    if k == 'unop':
        return '%s(%s)' % (e[1], show(e[2], d))
    if k == 'cast':
        return '(%s as %s)' % (show(e[1], d), e[2])
    if k == 'agg':
        name = e[2] or e[1]
        if e[3]:
            name = '%s::%s' % (name, e[3])
        return '%s{%s}' % (name, ', '.join('%s: %s' % (n, show(x, d)) for n, x in e[4]))
    if k == 'discr':
        return 'discr(%s)' % show(e[1], d)
    if k == 'len':
        return 'len(%s)' % show(e[1], d)
    if k == 'await':
        return 'await(%s)' % show(e[1], d)
    if k == 'try':
        return 'try(%s)' % show(e[1], d)
    if k == 'phi':
        return 'phi(%s)' % ' | '.join(show(a, d) for a in e[1])
    if k == 'closure':
        return 'closure:%s' % e[1]
    return 'other(%s)' % (e[1] if len(e) > 1 else '')


def _subst(e, names, args, depth=0):
    """replace ('var', p) by args[names[p]] throughout an expression"""
    if depth > 40:
        return e
    k = e[0]
    d = depth + 1
    if k in ('var', 'mvar'):
        if e[1] in names and names[e[1]] < len(args):
            return args[names[e[1]]]
        return e
    if k in ('field',):
        b = _subst(e[1], names, args, d)
        if b[0] == 'agg' and b[1] == 'tuple' and str(e[2]).isdigit() and int(e[2]) < len(b[4]):
            return b[4][int(e[2])][1]
        return (k, b) + tuple(e[2:])
    if k in ('variant', 'discr', 'len', 'await', 'try'):
        return (k, _subst(e[1], names, args, d)) + tuple(e[2:])
    if k == 'unop':
        return (k, e[1], _subst(e[2], names, args, d))
    if k == 'index':
        return (k, _subst(e[1], names, args, d), _subst(e[2], names, args, d))
    if k == 'call':
        info = e[4]
        if info.get('inl') is not None:
            info = _Info(info)
            info['inl'] = _subst(info['inl'], names, args, d)
        return (k, e[1], tuple(_subst(a, names, args, d) for a in e[2]), e[3], info)
    if k == 'binop':
        return (k, e[1], _subst(e[2], names, args, d), _subst(e[3], names, args, d))
    if k == 'cast':
        return (k, _subst(e[1], names, args, d), e[2])
    if k == 'agg':
        return (k, e[1], e[2], e[3], tuple((n, _subst(x, names, args, d)) for n, x in e[4]))
    if k == 'phi':
        return (k, tuple(_subst(a, names, args, d) for a in e[1]))
    if k == 'closure':
        return (k, e[1], tuple(_subst(a, names, args, d) for a in e[2]))
    return e


def walk(e, inl=True):
    """yield every sub-expression (pre-order); the inlined return expression of a small local
    helper is visited as part of its call node (unless inl=False)"""
    yield e
    k = e[0]
    if inl and k == 'call' and e[4].get('inl') is not None:
        for x in walk(e[4]['inl'], inl):
            yield x
    if k in ('field', 'variant', 'unop', 'discr', 'len', 'await', 'try'):
        sub = [e[1]] if k != 'unop' else [e[2]]
    elif k == 'index':
        sub = [e[1], e[2]]
    elif k == 'call':
        sub = list(e[2])
    elif k == 'binop':
        sub = [e[2], e[3]]
    elif k == 'cast':
        sub = [e[1]]
    elif k == 'agg':
        sub = [x for _, x in e[4]]
    elif k == 'phi':
        sub = list(e[1])
    elif k == 'closure':
        sub = list(e[2])
    elif k == 'mvar':
        sub = [e[2]] if e[2] is not None else []
    else:
        sub = []
    for s in sub:
        for x in walk(s, inl):
            yield x


def strip(e):
    """peel casts and pass-through calls (clone/as_ref/into/...) off an expression"""
    while True:
        if e[0] == 'cast':
            e = e[1]
        elif e[0] == 'call' and e[4].get('name') in PASSTHROUGH_NAMES and len(e[2]) >= 1:
            e = e[2][0]
        elif e[0] in ('await', 'try') and False:
            e = e[1]
        else:
            return e


def calls_in(e):
    return [x for x in walk(e) if x[0] == 'call']


def mentions(e, pred):
    return any(pred(x) for x in walk(e))


# ------------------------------------------------------------------------------------------
class Fn:
    def __init__(self, facts, raw):
        self.facts = facts
        self.raw = raw
        self.path = raw['path']
        self.name = raw.get('name')
        self.self_ty = raw.get('self_ty')
        self.trait = raw.get('trait')
        self.kind = raw['kind']
        self.parent = raw.get('parent')
        self.coroutine = raw.get('coroutine')
        self.blocks = raw['blocks']
        self.locals = raw['locals']
        self.argc = raw['argc']
        self.file = raw['sp']['f']
        self.line = raw['sp']['l']
        self.line_hi = raw['sp']['h']
        x = raw['sp'].get('x') or ''
        # bodies generated by #[derive(..)] (Debug/Clone/PartialEq/FromPrimitive) are not user code
        self.derived = x.startswith('macro:') and 'select' not in x
        self._succ = None
        self._defs = None
        self._expr_cache = {}
        self._varplaces = []
        self._argnames = {}
        for v in raw['vars']:
            if 'place' in v:
                p = v['place']
                self._varplaces.append((p['l'], self._projkey(p.get('p', [])), v['n']))
                if 'arg' in v and not p.get('p'):
                    self._argnames[p['l']] = v['n']
        # longer prefixes first
        self._varplaces.sort(key=lambda t: -len(t[1]))
        self._localnames = {}
        for l, pk, n in self._varplaces:
            if not pk and l not in self._localnames:
                self._localnames[l] = n

    # -- basics ---------------------------------------------------------------------------
    def loc(self, bb=None):
        if bb is None:
            return '%s:%d' % (self.file, self.line)
        sp = self.blocks[bb]['t'].get('sp') or {}
        return '%s:%s' % (sp.get('f', self.file), sp.get('l', '?'))

    @staticmethod
    def _projkey(projs):
        out = []
        for p in projs:
            k = p['k']
            if k == 'field':
                out.append(('f', p['i']))
            elif k == 'deref':
                out.append(('d',))
            elif k == 'downcast':
                out.append(('v', p['vi']))
            elif k == 'index':
                out.append(('i', p['l']))
            elif k == 'cindex':
                out.append(('c', p['off'], p['from_end']))
            else:
                out.append(('o', json.dumps(p, sort_keys=True)))
        return tuple(out)

    def term(self, bb):
        return self.blocks[bb]['t']

    def succs(self, bb):
        if self._succ is None:
            self._succ = [self._succ_of(i) for i in range(len(self.blocks))]
        return self._succ[bb]

    def _succ_of(self, bb):
        t = self.blocks[bb]['t']
        k = t['k']
        if k in ('goto', 'drop', 'assert', 'falseedge', 'falseunwind', 'yield'):
            return [t['t']]
        if k == 'call':
            return [t['t']] if 't' in t else []
        if k == 'switch':
            out = [b for _, b in t['ts']]
            out.append(t['o'])
            return out
        return []

    def preds(self):
        pr = defaultdict(list)
        for i in range(len(self.blocks)):
            for s in self.succs(i):
                pr[s].append(i)
        return pr

    def is_unreachable_block(self, bb):
        return self.blocks[bb]['t']['k'] == 'unreachable' and not self.blocks[bb]['s']

    # -- definitions ----------------------------------------------------------------------
    def defs(self, l):
        if self._defs is None:
            d = defaultdict(list)
            part = defaultdict(list)
            for bi, b in enumerate(self.blocks):
                for si, s in enumerate(b['s']):
                    if s['k'] == 'assign':
                        lhs = s['lhs']
                        if lhs.get('p'):
                            part[lhs['l']].append((bi, si, s))
                        else:
                            d[lhs['l']].append(('assign', bi, si, s['rv']))
                t = b['t']
                if t['k'] == 'call':
                    dest = t['dest']
                    if dest.get('p'):
                        part[dest['l']].append((bi, -1, t))
                    else:
                        d[dest['l']].append(('call', bi, -1, t))
                elif t['k'] == 'yield':
                    pass
            self._defs = d
            self._partial = part
        return self._defs.get(l, [])

    def mutable_locals(self):
        """named locals that hold mutable state: `&mut x` is taken, or x is assigned in parts.
        Their initialiser does not describe their value at a later use, so expressions name them
        instead of inlining their definition."""
        if hasattr(self, '_mutl'):
            return self._mutl
        m = set()
        self.defs(0)
        for l in self._partial:
            if l in self._localnames:
                m.add(l)
        for b in self.blocks:
            for s in b['s']:
                if s['k'] == 'assign' and s['rv']['k'] == 'ref' and s['rv'].get('mut'):
                    p = s['rv']['place']
                    if not any(x['k'] == 'deref' for x in p.get('p', [])) and p['l'] in self._localnames:
                        m.add(p['l'])
        self._mutl = m
        return m

    def partial_defs(self, l):
        self.defs(0)
        return self._partial.get(l, [])

    def local_ty(self, l):
        return self.locals[l]['ty']

    # -- expressions ----------------------------------------------------------------------
    def expr_local(self, l, seen=frozenset()):
        key = l
        if key in self._expr_cache and not seen:
            return self._expr_cache[key]
        r = self._expr_local(l, seen)
        if not seen:
            self._expr_cache[key] = r
        return r

    def _expr_local(self, l, seen):
        if l in seen or len(seen) > 60:
            n = self._localnames.get(l)
            return ('var', n) if n else ('tmp', l)
        if 1 <= l <= self.argc:
            n = self._argnames.get(l)
            if n is None and self.coroutine and l == 1:
                return ('var', '<env>')
            return ('var', n or ('arg%d' % l))
        ds = self.defs(l)
        name = self._localnames.get(l)
        seen2 = seen | {l}
        if name and l in self.mutable_locals() and not name.startswith('__'):
            init = None
            if len(ds) == 1:
                init = self._expr_def(ds[0], seen2)
            return ('mvar', name, init, l)
        if len(ds) == 1:
            return self._expr_def(ds[0], seen2)
        if len(ds) == 0:
            return ('var', name, l) if name else ('tmp', l)
        if name:
            return ('var', name, l)
        alts = []
        for d in ds[:6]:
            alts.append(self._expr_def(d, seen2))
        uniq = []
        for a in alts:
            if a not in uniq:
                uniq.append(a)
        if len(uniq) == 1:
            return uniq[0]
        return ('phi', tuple(uniq))

    def _expr_def(self, d, seen):
        if d[0] == 'assign':
            return self.expr_rvalue(d[3], seen)
        return self.expr_call(d[1], seen)

    def expr_call(self, bb, seen=frozenset()):
        t = self.blocks[bb]['t']
        args = tuple(self.expr_operand(a, seen) for a in t['args'])
        callee = t.get('callee')
        if callee is None:
            callee = 'indirect:' + show(self.expr_operand(t['func'], seen))
        info = {'name': t.get('name'), 'self_ty': t.get('self_ty'), 'trait': t.get('trait'),
                'resolved': t.get('resolved'), 'local': t.get('local', False),
                'full': t.get('callee_full'), 'gargs': t.get('gargs', [])}
        inl = self._inline_return(t, args, seen)
        if inl is not None:
            info['inl'] = inl
        e = ('call', callee, args, bb, _Info(info))
        # transparent wrappers
        if callee in TRANSPARENT_CALLS and args:
            return args[0]
        if callee.endswith('::new_unchecked') and callee.startswith('std::pin::Pin') and args:
            return args[0]
        if callee == 'std::future::Future::poll' and args:
            return ('call', 'poll', (args[0],), bb, _Info(info))
        if callee == 'std::ops::Try::branch' and args:
            return ('call', 'branch', (args[0],), bb, _Info(info))
        return e

    _INL_DEPTH = [0]

    def _inline_return(self, t, args, seen):
        """return expression of a small, loop-free, synchronous crate-local callee with its parameters
        replaced by the argument expressions (so that extracting a helper does not hide a provenance)"""
        F = self.facts
        tgt = t.get('resolved') if t.get('resolved') in F.fns else t.get('callee')
        if tgt not in F.fns or tgt == self.path:
            return None
        g = F.fns[tgt]
        if g.derived or g.coroutine or sum(1 for b in g.blocks if not b.get('cleanup')) > 40 or Fn._INL_DEPTH[0] >= 2:
            return None
        if F.is_async(tgt) or g.has_loop():
            return None
        Fn._INL_DEPTH[0] += 1
        try:
            r = g.expr_local(0)
        finally:
            Fn._INL_DEPTH[0] -= 1
        if r[0] in ('tmp',) or (r[0] == 'var' and r[1] is None):
            return None
        names = {}
        for v in g.raw['vars']:
            if 'arg' in v and 'place' in v and not v['place'].get('p'):
                names[v['n']] = v['arg'] - 1
        return _subst(r, names, args)

    def has_loop(self):
        if hasattr(self, '_loop'):
            return self._loop
        color = {}
        loop = [False]

        def dfs(b):
            color[b] = 1
            for n in self.succs(b):
                if self.blocks[n].get('cleanup'):
                    continue
                if color.get(n) == 1:
                    loop[0] = True
                elif n not in color:
                    dfs(n)
            color[b] = 2
        import sys
        sys.setrecursionlimit(10000)
        dfs(0)
        self._loop = loop[0]
        return self._loop

    def expr_operand(self, op, seen=frozenset()):
        if 'c' in op:
            return self.expr_const(op['c'])
        p = op.get('cp') or op.get('mv')
        if p is None:
            return ('other', json.dumps(op)[:80])
        return self.expr_place(p, seen)

    @staticmethod
    def expr_const(c):
        if 'fn' in c:
            return ('fn', c['fn'])
        if 'str' in c and c['ty'].endswith('str'):
            return ('str', c['str'])
        if 'bytes' in c:
            return ('bytes', tuple(c['bytes']))
        if 'val' in c:
            return ('const', c['val'], c.get('def'), c['ty'])
        if 'def' in c:
            return ('const', None, c['def'], c['ty'])
        if 'closure' in c:
            return ('closure', c['closure'], ())
        return ('const', None, None, c['ty'])

    def expr_place(self, p, seen=frozenset()):
        projs = p.get('p', [])
        pk = self._projkey(projs)
        l = p['l']
        base = None
        start = 0
        # longest var_debug prefix (names captured upvars and pattern bindings)
        for vl, vpk, vn in self._varplaces:
            if vl == l and len(vpk) <= len(pk) and vpk and pk[:len(vpk)] == vpk:
                base = ('var', vn)
                start = len(vpk)
                break
        if base is None:
            base = self.expr_local(l, seen)
        e = base
        for pr in projs[start:]:
            k = pr['k']
            if k == 'deref':
                continue
            if k == 'field':
                nm = pr.get('n', str(pr['i']))
                # value of `x.await` : (poll(..) as Ready).0 ; value of `x?` : (branch(..) as Continue).0
                if e[0] == 'variant' and e[1][0] == 'call' and e[1][1] == 'poll' and e[2] == 'Ready':
                    e = ('await', e[1][2][0])
                    continue
                if e[0] == 'variant' and e[1][0] == 'call' and e[1][1] == 'branch' and e[2] == 'Continue':
                    e = ('try', e[1][2][0])
                    continue
                if e[0] == 'agg' and e[1] == 'tuple' and nm.isdigit() and int(nm) < len(e[4]):
                    # component of a tuple built in place: `match (a, b) { (x, y) => .. }` binds x to a
                    e = e[4][int(nm)][1]
                    continue
                e = ('field', e, nm, pr.get('adt'))
            elif k == 'downcast':
                e = ('variant', e, pr.get('v', str(pr['vi'])))
            elif k == 'index':
                # built-in indexing of an array / slice place: same shape as the Index::index call a Vec produces, so that
                # `&Vec<T>` -> `&[T]` in a signature does not change what rules see
                e = ('call', 'std::ops::Index::index', (e, self.expr_local(pr['l'], seen)), None,
                     _Info({'name': 'index', 'trait': 'std::ops::Index', 'proj': True, 'local': False}))
            elif k == 'cindex':
                e = ('index', e, ('const', pr['off'], None, 'usize'))
            else:
                e = ('field', e, k)
        return e

    def expr_rvalue(self, rv, seen=frozenset()):
        k = rv['k']
        if k == 'use':
            return self.expr_operand(rv['op'], seen)
        if k in ('ref', 'rawptr'):
            return self.expr_place(rv['place'], seen)
        if k == 'cast':
            return ('cast', self.expr_operand(rv['op'], seen), rv['ty'])
        if k == 'binop':
            return ('binop', rv['op'], self.expr_operand(rv['a'], seen),
                    self.expr_operand(rv['b'], seen))
        if k == 'unop':
            if rv['op'] == 'PtrMetadata':
                return ('len', self.expr_operand(rv['a'], seen))
            return ('unop', rv['op'], self.expr_operand(rv['a'], seen))
        if k == 'discr':
            return ('discr', self.expr_place(rv['place'], seen), rv.get('ty', ''))
        if k == 'repeat':
            return ('agg', 'repeat', None, None,
                    (('elem', self.expr_operand(rv['op'], seen)),
                     ('n', ('const', rv.get('n'), None, 'usize'))))
        if k == 'agg':
            ak = rv['ak']
            ops = [self.expr_operand(o, seen) for o in rv['ops']]
            if ak == 'adt':
                names = rv.get('fields', [])
                fields = tuple((names[i] if i < len(names) else str(i), o)
                               for i, o in enumerate(ops))
                return ('agg', 'adt', rv['adt'], rv['v'], fields)
            if ak in ('closure', 'coroutine', 'coroutine_closure'):
                return ('closure', rv['def'], tuple(ops))
            return ('agg', ak, None, None, tuple((str(i), o) for i, o in enumerate(ops)))
        return ('other', rv.get('dbg', k)[:80])

    # -- call sites -----------------------------------------------------------------------
    def calls(self, pred=None):
        out = []
        for bi, b in enumerate(self.blocks):
            t = b['t']
            if t['k'] == 'call' and not b.get('cleanup'):
                if pred is None or pred(t):
                    out.append(bi)
        return out

    def calls_to(self, pattern):
        """call sites whose callee (or resolved impl) matches a regex"""
        rx = re.compile(pattern)
        return self.calls(lambda t: rx.search(t.get('callee') or '') or
                          rx.search(t.get('resolved') or '') or rx.search(t.get('callee_full') or ''))

    def call_target(self, bb):
        t = self.blocks[bb]['t']
        return t.get('resolved') or t.get('callee')

    # -- feasible reachability -------------------------------------------------------------
    def _tracked(self):
        """locals used as switch discriminants that receive at least one constant"""
        if hasattr(self, '_trk'):
            return self._trk
        discr = set()
        for b in self.blocks:
            t = b['t']
            if t['k'] == 'switch':
                op = t['d']
                p = op.get('cp') or op.get('mv')
                if p and not p.get('p'):
                    discr.add(p['l'])
        # copies into discriminants
        changed = True
        while changed:
            changed = False
            for l in list(discr):
                for d in self.defs(l):
                    if d[0] == 'assign' and d[3]['k'] == 'use':
                        op = d[3]['op']
                        p = op.get('cp') or op.get('mv')
                        if p and not p.get('p') and p['l'] not in discr:
                            discr.add(p['l'])
                            changed = True
        trk = set()
        for l in discr:
            for d in self.defs(l):
                if d[0] == 'assign' and d[3]['k'] == 'use' and 'c' in d[3]['op'] \
                        and 'val' in d[3]['op']['c']:
                    trk.add(l)
        # closure under copy
        for l in discr:
            for d in self.defs(l):
                if d[0] == 'assign' and d[3]['k'] == 'use':
                    p = d[3]['op'].get('cp') or d[3]['op'].get('mv')
                    if p and not p.get('p') and p['l'] in trk:
                        trk.add(l)
        self._trk = trk
        return trk

    def _discr_of(self):
        """{tmp: L} for `tmp = discriminant(L)` where L is a bare local that is never mutated after
        its single definition (so a discriminant observed once stays valid)"""
        if hasattr(self, '_dof'):
            return self._dof
        d = {}
        self.defs(0)
        for b in self.blocks:
            for s in b['s']:
                if s['k'] == 'assign' and s['rv']['k'] == 'discr' and not s['lhs'].get('p'):
                    p = s['rv']['place']
                    if p.get('p'):
                        continue
                    L = p['l']
                    if len(self.defs(L)) <= 1 and L not in self._partial and not self._mut_borrowed(L):
                        d[s['lhs']['l']] = L
        self._dof = d
        return d

    def _mut_borrowed(self, L):
        if not hasattr(self, '_mb'):
            mb = set()
            for b in self.blocks:
                for s in b['s']:
                    if s['k'] == 'assign' and s['rv']['k'] in ('ref', 'rawptr') and (s['rv'].get('mut') or s['rv']['k'] == 'rawptr'):
                        p = s['rv']['place']
                        if not any(x['k'] == 'deref' for x in p.get('p', [])):
                            mb.add(p['l'])
            self._mb = mb
        return L in self._mb

    def _step_env(self, bb, env):
        trk = self._tracked()
        dof = self._discr_of()
        if not trk and not dof:
            return env
        env = dict(env)
        if dof:
            for s in self.blocks[bb]['s']:
                if s['k'] == 'assign' and s['lhs']['l'] in dof and not s['lhs'].get('p'):
                    L = dof[s['lhs']['l']]
                    if ('d', L) in env:
                        env[s['lhs']['l']] = env[('d', L)]
                    else:
                        env.pop(s['lhs']['l'], None)
        for s in self.blocks[bb]['s']:
            if s['k'] != 'assign':
                continue
            lhs = s['lhs']
            l = lhs['l']
            if l in dof:
                continue
            if l not in trk:
                continue
            if lhs.get('p'):
                env.pop(l, None)
                continue
            rv = s['rv']
            if rv['k'] == 'use' and 'c' in rv['op'] and 'val' in rv['op']['c']:
                env[l] = rv['op']['c']['val']
            elif rv['k'] == 'use':
                p = rv['op'].get('cp') or rv['op'].get('mv')
                if p and not p.get('p') and p['l'] in env:
                    env[l] = env[p['l']]
                else:
                    env.pop(l, None)
            else:
                env.pop(l, None)
        t = self.blocks[bb]['t']
        if t['k'] == 'call':
            d = t['dest']
            if d['l'] in env:
                env.pop(d['l'], None)
        return env

    def explore(self, start=0, cut_edges=(), cut_blocks=(), start_env=None):
        """feasible forward reachability from `start`; returns set of reachable blocks.
        cut_edges: set of (from, to) pairs that may not be taken; cut_blocks: blocks that
        may not be entered."""
        cut_edges = set(cut_edges)
        cut_blocks = set(cut_blocks)
        if start in cut_blocks:
            return set()
        seen = set()
        reach = set()
        work = [(start, tuple(sorted((start_env or {}).items(), key=repr)))]
        while work:
            bb, envt = work.pop()
            if (bb, envt) in seen:
                continue
            seen.add((bb, envt))
            reach.add(bb)
            env = self._step_env(bb, dict(envt))
            t = self.blocks[bb]['t']
            nxt = None
            if t['k'] == 'switch':
                op = t['d']
                p = op.get('cp') or op.get('mv')
                if p and not p.get('p') and p['l'] in env:
                    v = env[p['l']]
                    nxt = [t['o']]
                    for val, b in t['ts']:
                        if val == v:
                            nxt = [b]
                            break
            if nxt is None:
                nxt = self.succs(bb)
            dof = self._discr_of()
            dl = None
            if t['k'] == 'switch':
                op = t['d']
                p = op.get('cp') or op.get('mv')
                if p and not p.get('p') and p['l'] in dof:
                    dl = (p['l'], dof[p['l']])
            for n in nxt:
                if (bb, n) in cut_edges or n in cut_blocks:
                    continue
                if self.blocks[n].get('cleanup'):
                    continue
                env2 = env
                if dl is not None and ('d', dl[1]) not in env:
                    env2 = _refine_discr(env, t, dl[1], n)
                    if env2 is None:
                        continue
                work.append((n, tuple(sorted(env2.items(), key=repr))))
        return reach

    def only_via_edge(self, edge):
        """blocks every feasible path to which uses `edge`"""
        allr = self.explore()
        return allr - self.explore(cut_edges=[edge])

    def only_via_edges(self, edges):
        allr = self.explore()
        return allr - self.explore(cut_edges=list(edges))

    def only_via_block(self, bb):
        allr = self.explore()
        return (allr - self.explore(cut_blocks=[bb])) - {bb}

    def reach_from(self, bb, cut_blocks=(), cut_edges=()):
        return self.explore(start=bb, cut_blocks=cut_blocks, cut_edges=cut_edges)

    def return_blocks(self):
        return [i for i, b in enumerate(self.blocks) if b['t']['k'] == 'return' and not b.get('cleanup')]

    # -- switch conditions ----------------------------------------------------------------
    def switches(self):
        return [i for i, b in enumerate(self.blocks) if b['t']['k'] == 'switch' and not b.get('cleanup')]

    def cond(self, bb):
        """(expr, {value: target}, otherwise) of the switch ending block bb"""
        t = self.blocks[bb]['t']
        e = self.expr_operand(t['d'])
        return e, dict((v, b) for v, b in t['ts']), t['o']

    def bool_edges(self, bb):
        """for a boolean switch: (true_target, false_target)"""
        t = self.blocks[bb]['t']
        if t.get('dty') != 'bool':
            return None
        f = None
        for v, b in t['ts']:
            if v == 0:
                f = b
        return (t['o'], f)

    def variant_edges(self, bb, fill=False):
        """for a switch on discr(x): {variant_name: target} using the ADT tables; with fill, variants
        that take the otherwise edge (`if let`, `matches!`, `_ =>`) are listed with that target too"""
        e, ts, o = self.cond(bb)
        if e[0] != 'discr':
            return None
        names = self.facts.variant_names(e[2])
        out = {}
        for v, b in ts.items():
            out[names.get(v, str(v))] = b
        if not self.is_unreachable_block(o):
            out['_'] = o
            if fill:
                for v, n in names.items():
                    out.setdefault(n, o)
        return out

    def outcome_edges(self, call_bb):
        """edges taken depending on the outcome of the call at call_bb.  Returns dict with keys
        among ok/err/some/none/true/false -> list of (switch_bb, target_bb)."""
        res = defaultdict(list)

        def is_this(e):
            return e[0] == 'call' and e[3] == call_bb and e[1] not in ('poll', 'branch')

        for sb in self.switches():
            e, ts, o = self.cond(sb)
            neg = False
            # peel Not / == false / != true
            while True:
                if e[0] == 'unop' and e[1] == 'Not':
                    neg = not neg
                    e = e[2]
                    continue
                if e[0] == 'binop' and e[1] in ('Eq', 'Ne') and e[3][0] == 'const' and e[3][3] == 'bool':
                    flip = (e[1] == 'Eq') != bool(e[3][1])
                    if flip:
                        neg = not neg
                    e = e[2]
                    continue
                break
            kind = None
            inner = e
            if e[0] == 'discr':
                inner = e[1]
                ty = e[2]
                if ty.startswith('std::result::Result'):
                    kind = {0: 'ok', 1: 'err'}
                elif ty.startswith('std::ops::ControlFlow'):
                    kind = {0: 'ok', 1: 'err'}
                elif ty.startswith('std::option::Option'):
                    kind = {0: 'none', 1: 'some'}
                else:
                    continue
            # unwrap await / try / branch / is_ok style wrappers
            via = inner
            pol = None
            guard = 0
            while guard < 10:
                guard += 1
                if via[0] in ('await', 'try'):
                    via = via[1]
                elif via[0] == 'call' and via[1] in ('branch', 'poll'):
                    via = via[2][0]
                elif via[0] == 'call' and via[4].get('name') in ('map_err', 'map') and via[2] and \
                        (via[1].startswith('std::result::Result') or via[1].startswith('std::option::Option')):
                    via = via[2][0]
                elif via[0] == 'call' and via[4].get('name') in ('is_ok', 'is_some') and via[2]:
                    pol = True
                    via = via[2][0]
                elif via[0] == 'call' and via[4].get('name') in ('is_err', 'is_none') and via[2]:
                    pol = False
                    via = via[2][0]
                else:
                    break
            if not is_this(via):
                continue
            if kind is not None:
                for v, b in ts.items():
                    if v in kind:
                        res[kind[v]].append((sb, b))
                # `if let` / `while let`: the unmatched variant takes the otherwise edge
                if not self.is_unreachable_block(o):
                    for v, nm in kind.items():
                        if v not in ts:
                            res[nm].append((sb, o))
            else:
                be = self.bool_edges(sb)
                if be is None:
                    continue
                tt, ff = be
                if neg:
                    tt, ff = ff, tt
                if pol is None:
                    res['true'].append((sb, tt))
                    res['false'].append((sb, ff))
                else:
                    okk = 'ok' if pol else 'err'
                    errk = 'err' if pol else 'ok'
                    res[okk].append((sb, tt))
                    res[errk].append((sb, ff))
        return dict(res)

    # -- statements -----------------------------------------------------------------------
    def assigns(self, pred=None):
        """[(bb, idx, lhs_expr, rv_expr, stmt)] for every assignment whose lhs has a projection
        (stores through references / into fields), or all if pred accepts"""
        out = []
        for bi, b in enumerate(self.blocks):
            if b.get('cleanup'):
                continue
            for si, s in enumerate(b['s']):
                if s['k'] != 'assign':
                    continue
                if pred is None or pred(s):
                    out.append((bi, si, s))
        return out

    def stores(self):
        """assignments that write through a projection (field/deref/index stores)"""
        return self.assigns(lambda s: bool(s['lhs'].get('p')))

    def pretty(self):
        out = ['fn %s  (%s)' % (self.path, self.loc())]
        for bi, b in enumerate(self.blocks):
            if b.get('cleanup'):
                continue
            out.append(' bb%d:' % bi)
            for s in b['s']:
                if s['k'] == 'assign':
                    out.append('    %s = %s' % (show(self.expr_place(s['lhs'])) if s['lhs'].get('p')
                                                else '_%d' % s['lhs']['l'],
                                                show(self.expr_rvalue(s['rv']))))
            t = b['t']
            k = t['k']
            if k == 'call':
                out.append('    _%d%s = CALL %s -> bb%s' % (
                    t['dest']['l'], '.*' if t['dest'].get('p') else '', show(self.expr_call(bi)) if True else '',
                    t.get('t')))
            elif k == 'switch':
                e, ts, o = self.cond(bi)
                out.append('    SWITCH %s %s else bb%d' % (show(e), ts, o))
            elif k == 'assert':
                out.append('    ASSERT %s (%s == %s) -> bb%d' % (t['msg'], show(self.expr_operand(t['cond'])), t['expected'], t['t']))
            else:
                out.append('    %s -> %s' % (k.upper(), self.succs(bi)))
        return '\n'.join(out)


class _Info(dict):
    """dict that hashes by identity-insensitive content subset so that exprs stay hashable"""
    def __hash__(self):
        return hash((self.get('name'), self.get('resolved')))

    def __eq__(self, other):
        return isinstance(other, dict) and self.get('name') == other.get('name') and \
            self.get('resolved') == other.get('resolved')


# ------------------------------------------------------------------------------------------
class Facts:
    def __init__(self, path):
        with open(path) as fh:
            raw = json.load(fh)
        self.raw = raw
        self.crate = raw['crate']
        self.kind = raw['kind']
        self.tree_hash = raw.get('tree_hash')
        self.overflow_checks = raw.get('overflow_checks')
        self.fns = {}
        for f in raw['fns']:
            self.fns[f['path']] = Fn(self, f)
        self.consts = {c['path']: c for c in raw['consts']}
        self.adts = {a['path']: a for a in raw['adts']}
        self.impls = raw['impls']
        self._children = defaultdict(list)
        for f in self.fns.values():
            if f.parent:
                self._children[f.parent].append(f.path)
        self._cg = None

    # -- lookup ---------------------------------------------------------------------------
    def has(self, path):
        return path in self.fns

    def fn(self, path):
        if path not in self.fns:
            raise AnchorMissing('function %s not found' % path)
        return self.fns[path]

    def body(self, path):
        """the body that holds the user's code: for an `async fn` its coroutine closure"""
        f = self.fn(path)
        for c in self._children.get(path, []):
            cf = self.fns[c]
            if cf.coroutine and 'Async, Fn' in cf.coroutine:
                return cf
        return f

    def is_async(self, path):
        return self.body(path) is not self.fn(path)

    def children(self, path, recursive=True):
        out = []
        for c in self._children.get(path, []):
            out.append(c)
            if recursive:
                out.extend(self.children(c, True))
        return out

    def find_fns(self, pred):
        return [f for f in self.fns.values() if pred(f)]

    def user_fns(self):
        return [f for f in self.fns.values() if not f.derived]

    def fns_named(self, name, self_ty=None):
        out = []
        for f in self.fns.values():
            if f.name == name and f.kind in ('Fn', 'AssocFn'):
                if self_ty is None or (f.self_ty or '').endswith(self_ty):
                    out.append(f)
        return out

    def const_val(self, path):
        c = self.consts.get(path)
        if c is None:
            raise AnchorMissing('const %s not found' % path)
        return c.get('val')

    def consts_named(self, name):
        return [c for p, c in self.consts.items() if split_path(p)[-1] == name]

    def variant_names(self, ty):
        base = ty.split('<')[0]
        builtin = {
            'std::result::Result': {0: 'Ok', 1: 'Err'},
            'std::option::Option': {0: 'None', 1: 'Some'},
            'std::ops::ControlFlow': {0: 'Continue', 1: 'Break'},
            'std::task::Poll': {0: 'Ready', 1: 'Pending'},
            'std::cmp::Ordering': {-1: 'Less', 0: 'Equal', 1: 'Greater'},
        }
        if base in builtin:
            return builtin[base]
        a = self.adts.get(base.lstrip('&'))
        if a:
            return dict((int(v.get('discr', v['vi'])), v['name']) for v in a['variants'])
        return {}

    def adt(self, path):
        a = self.adts.get(path)
        if a is None:
            raise AnchorMissing('type %s not found' % path)
        return a

    # -- call graph -----------------------------------------------------------------------
    def callgraph(self):
        if self._cg is not None:
            return self._cg
        cg = defaultdict(set)
        for f in self.fns.values():
            for bb in f.calls():
                t = f.blocks[bb]['t']
                for key in ('resolved', 'callee'):
                    tgt = t.get(key)
                    if tgt and tgt in self.fns:
                        cg[f.path].add(tgt)
            # closures / coroutines built in this body
            for c in self._children.get(f.path, []):
                cg[f.path].add(c)
        self._cg = cg
        return cg

    def reachable_fns(self, roots):
        cg = self.callgraph()
        seen = set()
        work = list(roots)
        while work:
            p = work.pop()
            if p in seen or p not in self.fns:
                continue
            seen.add(p)
            work.extend(cg.get(p, ()))
        return seen

    def callers_of(self, pattern):
        """[(Fn, bb)] of call sites whose callee/resolved matches regex `pattern`"""
        out = []
        for f in self.fns.values():
            for bb in f.calls_to(pattern):
                out.append((f, bb))
        return out

    def owner_fn(self, f):
        """outermost named function a closure/coroutine body belongs to"""
        while f.parent and f.parent in self.fns:
            f = self.fns[f.parent]
        return f


# ------------------------------------------------------------------------------------------
# panic-site enumeration (rule kind K4)
# ------------------------------------------------------------------------------------------
PANIC_CALLS = [
    (r'^(core|std)::panicking::', 'panic'),
    (r'^std::rt::(begin_panic|panic_fmt)', 'panic'),
    (r'::unwrap$', 'unwrap'),
    (r'::expect$', 'expect'),
    (r'::unwrap_err$', 'unwrap'),
    (r'::expect_err$', 'expect'),
    (r'^std::ops::Index::index$', 'index'),
    (r'^std::ops::IndexMut::index_mut$', 'index'),
    (r'copy_from_slice$', 'copy_from_slice'),
    (r'clone_from_slice$', 'copy_from_slice'),
    (r'^bytes::Buf::advance$', 'advance'),
    (r'::split_at(_mut)?$', 'split_at'),
    (r'^std::vec::Vec::<T, A>::(remove|insert|swap_remove|split_off|drain|truncate_front)$', 'vec_pos'),
    (r'^std::collections::VecDeque::<T, A>::(remove|insert|swap|split_off|drain)$', 'vec_pos'),
    (r'::chunks(_exact|_mut)?$', 'chunks'),
    (r'::step_by$', 'step_by'),
    (r'^std::iter::Iterator::step_by$', 'step_by'),
    (r'::windows$', 'chunks'),
    (r'^std::cell::RefCell::<T>::borrow(_mut)?$', 'refcell'),
    (r'::unreachable', 'panic'),
    (r'::with_capacity$', 'alloc'),
    (r'::reserve(_exact)?$', 'alloc'),
    (r'^std::vec::from_elem$', 'alloc'),
    (r'::resize$', 'alloc'),
]
_PANIC_RX = [(re.compile(p), k) for p, k in PANIC_CALLS]


def panic_sites(f):
    """[(kind, bb, description_expr)] for one function body"""
    out = []
    for bi, b in enumerate(f.blocks):
        if b.get('cleanup'):
            continue
        t = b['t']
        sp = t.get('sp') or {}
        if sp.get('xo') == 'tokio::select' and sp.get('x'):
            # plumbing generated by tokio::select! itself (branch bookkeeping), not user code
            continue
        if t['k'] == 'assert':
            if t['msg'] in ('div_zero', 'rem_zero'):
                # the assert message carries the dividend; the divisor is inside the condition Eq(divisor, 0)
                c = f.expr_operand(t['cond'])
                ops = [c[2]] if c[0] == 'binop' and c[1] == 'Eq' else [c]
                out.append((t['msg'], bi, ops))
            else:
                out.append((t['msg'], bi, [f.expr_operand(o) for o in t.get('mops', [])]))
        elif t['k'] == 'call':
            callee = t.get('callee') or ''
            for rx, kind in _PANIC_RX:
                if rx.search(callee):
                    if kind in ('unwrap', 'expect') and not (
                            callee.startswith('std::result::Result') or callee.startswith('std::option::Option')):
                        continue
                    out.append((kind, bi, [f.expr_operand(a) for a in t['args']]))
                    break
    return out


# ------------------------------------------------------------------------------------------
# helpers used by the rule tables
# ------------------------------------------------------------------------------------------
UNWRAP_NAMES = {'as_mut', 'as_ref', 'ok_or', 'ok_or_else', 'unwrap', 'expect', 'clone', 'deref',
                'deref_mut', 'borrow', 'borrow_mut', 'as_slice', 'as_mut_slice', 'to_vec',
                'as_deref', 'as_deref_mut', 'unwrap_or_default', 'iter', 'iter_mut', 'into_iter',
                'to_owned', 'into', 'as_str', 'as_bytes', 'as_path', 'take', 'enumerate', 'copied', 'cloned'}


def access_path(e):
    """normalise an expression to a dotted access path (`self.piece_rx.buff`) by peeling
    `?`, `.await`, Option/Result plumbing, clones, casts and Some/Ok payload projections.
    Returns None when the expression is not a pure path."""
    parts = []
    guard = 0
    while guard < 80:
        guard += 1
        k = e[0]
        if k in ('var', 'mvar'):
            parts.append(e[1])
            return '.'.join(reversed(parts))
        if k == 'field':
            # payload of Some/Ok/tuple-variants is transparent
            if e[1][0] == 'variant' and e[1][2] in ('Some', 'Ok', 'Continue', 'Ready') and e[2] == '0':
                e = e[1][1]
                continue
            parts.append(e[2])
            e = e[1]
            continue
        if k == 'variant':
            parts.append('<%s>' % e[2])
            e = e[1]
            continue
        if k in ('try', 'await'):
            e = e[1]
            continue
        if k == 'cast':
            e = e[1]
            continue
        if k == 'index':
            parts.append('[]')
            e = e[1]
            continue
        if k == 'call' and e[2] and (e[4].get('name') in UNWRAP_NAMES or e[1] in ('branch', 'poll')):
            if e[4].get('name') == 'take' and not e[1].startswith('std::option::Option'):
                return None
            e = e[2][0]
            continue
        if k == 'call' and e[2] and e[4].get('name') in ('get', 'get_mut', 'index', 'index_mut', 'get_unchecked', 'next'):
            parts.append('[]')
            e = e[2][0]
            continue
        if k == 'call' and not e[2]:
            parts.append((e[4].get('name') or e[1]) + '()')
            return '.'.join(reversed(parts))
        return None
    return None


def init_of(e):
    """initialiser of a named mutable local (`let mut t = f(); t.tick()` -> f())"""
    while e[0] == 'mvar' and e[2] is not None:
        e = e[2]
    return e


def root_var(e):
    p = access_path(e)
    return p.split('.')[0] if p else None


def is_call_to(e, rx):
    return e[0] == 'call' and re.search(rx, e[1]) is not None


WRAPPER_CALLEES = {'poll', 'branch'}


def _is_wrapper_call(t):
    c = t.get('callee') or ''
    return (c in TRANSPARENT_CALLS or c == 'std::future::Future::poll' or c == 'std::ops::Try::branch'
            or c == 'std::future::get_context' or c == 'std::ops::FromResidual::from_residual'
            or (c.startswith('std::pin::Pin') and c.endswith('new_unchecked')))


def real_calls(f):
    """call sites that are not desugaring plumbing (into_future/poll/branch/...)"""
    rc = f.__dict__.get('_real_calls')
    if rc is None:
        rc = [bb for bb in f.calls() if not _is_wrapper_call(f.blocks[bb]['t'])]
        f.__dict__['_real_calls'] = rc
    return list(rc)


def callee_of(f, bb):
    t = f.blocks[bb]['t']
    return t.get('resolved') or t.get('callee') or ''


def select_info(f):
    """describe a tokio::select! expansion inside coroutine body f.
    Returns list of dicts, one per select: {switch_bb, arms: {k: {...}}}."""
    out = []
    for sb in f.switches():
        e, ts, o = f.cond(sb)
        if e[0] != 'discr' or 'select_util::Out' not in e[2]:
            continue
        inner = e[1]
        if inner[0] != 'await':
            continue
        # the futures tuple: first tuple aggregate whose members are calls, built before sb
        futures = None
        for bi, b in enumerate(f.blocks):
            for s in b['s']:
                if s['k'] == 'assign' and s['rv']['k'] == 'agg' and s['rv'].get('ak') == 'tuple' \
                        and len(s['rv']['ops']) >= 1:
                    ex = f.expr_rvalue(s['rv'])
                    if all(x[0] == 'call' for _, x in ex[4]) and sb in f.reach_from(bi):
                        cand = [x for _, x in ex[4]]
                        if futures is None or len(cand) > len(futures):
                            futures = cand
            if futures:
                break
        names = f.facts.variant_names(e[2])
        arms = {}
        for v, tgt in ts.items():
            nm = names.get(v, str(v))
            if not nm.startswith('_'):
                continue
            k = int(nm[1:])
            arm = {'variant': nm, 'target': tgt, 'switch': sb,
                   'future': futures[k] if futures and k < len(futures) else None,
                   'refutable': None}
            # refutable pattern: the arm target itself switches on discr(<payload>) with the
            # other side falling into the shared "failed to match bind" block
            t2 = f.blocks[tgt]['t']
            if t2['k'] == 'switch':
                e2, ts2, o2 = f.cond(tgt)
                if e2[0] == 'discr' and e2[1][0] == 'field' and e2[1][1][0] == 'variant' \
                        and e2[1][1][2] == nm:
                    arm['refutable'] = {'ty': e2[2], 'accepted': ts2, 'otherwise': o2}
            region = f.only_via_edge((sb, tgt))
            arm['region'] = region
            arms[k] = arm
        out.append({'switch': sb, 'arms': arms, 'futures': futures})
    return out


def const_of(e):
    """(value, defpath) if e is a (possibly cast) constant"""
    while e[0] == 'cast':
        e = e[1]
    if e[0] == 'const':
        return e[1], e[2]
    return None


def agg_sites(f, adt_rx, variant=None):
    """[(bb, idx, expr)] for every aggregate of an ADT matching adt_rx (and variant)"""
    out = []
    rx = re.compile(adt_rx)
    for bi, b in enumerate(f.blocks):
        if b.get('cleanup'):
            continue
        for si, s in enumerate(b['s']):
            if s['k'] == 'assign' and s['rv']['k'] == 'agg' and s['rv'].get('ak') == 'adt':
                if rx.search(s['rv']['adt']) and (variant is None or s['rv']['v'] == variant):
                    out.append((bi, si, f.expr_rvalue(s['rv'])))
    return out


def place_fields(p):
    """[(adt, field_name)] along a raw place"""
    return [(x.get('adt'), x.get('n')) for x in p.get('p', []) if x['k'] == 'field']


def field_touches(f, adt, field):
    """[(bb, idx, kind)] where kind in {'store','ref_mut','ref','read'} for every statement in f
    that stores to / borrows / reads a place going through adt.field"""
    out = []
    for bi, b in enumerate(f.blocks):
        if b.get('cleanup'):
            continue
        for si, s in enumerate(b['s']):
            if s['k'] != 'assign':
                continue
            if (adt, field) in place_fields(s['lhs']):
                # a store *into* the field or below it
                out.append((bi, si, 'store'))
            rv = s['rv']
            if rv['k'] in ('ref', 'rawptr') and (adt, field) in place_fields(rv['place']):
                out.append((bi, si, 'ref_mut' if rv.get('mut') or rv['k'] == 'rawptr' else 'ref'))
            elif rv['k'] == 'use':
                p = rv['op'].get('cp') or rv['op'].get('mv')
                if p and (adt, field) in place_fields(p):
                    out.append((bi, si, 'read'))
            elif rv['k'] == 'agg' and rv.get('ak') == 'adt' and rv['adt'] == adt and field in rv.get('fields', []):
                out.append((bi, si, 'init'))
    return out


def struct_by_shape(F, pred):
    """ADT paths of local structs whose {field: type} map satisfies pred"""
    out = []
    for p, a in F.adts.items():
        if a['kind'] != 'Struct' or not a['variants']:
            continue
        fields = {x['name']: x['ty'] for x in a['variants'][0]['fields']}
        if pred(fields):
            out.append(p)
    return out


def _ident(x):
    for _ in range(8):
        if x[0] == 'cast':
            x = x[1]
        elif x[0] in ('try', 'await'):
            # the object `f()?` / `f().await` yields is the one f produced (error alternatives of f do not get here)
            x = x[1]
            if x[0] == 'phi':
                good = [a for a in x[1] if not ((a[0] == 'call' and a[1].endswith('from_residual')) or
                                                (a[0] == 'agg' and a[1] == 'adt' and a[3] in ('Err', 'None')))]
                if len(good) == 1:
                    x = good[0]
        elif x[0] == 'agg' and x[1] == 'adt' and x[3] in ('Ok', 'Some') and len(x[4]) == 1:
            x = x[4][0][1]
        elif x[0] == 'field' and x[2] == '0' and x[1][0] == 'variant' and x[1][2] in ('Ok', 'Some'):
            x = x[1][1]
        elif x[0] == 'phi' and len({_ident_key(a) for a in x[1]}) == 1:
            x = x[1][0]
        else:
            break
    if x[0] in ('var', 'mvar') and len(x) > 2 and isinstance(x[-1], int):
        return ('L', x[-1])
    if x[0] in ('var', 'mvar'):
        return ('N', x[1])
    if x[0] == 'call' and x[1] not in ('poll', 'branch'):
        return ('C', x[3])
    return None


def _ident_key(a):
    i = _ident(a)
    return i if i is not None else ('?', show(a)[:80])


def local_defs(f, l):
    return [f._expr_def(d, frozenset([l])) for d in f.defs(l)]


def sharing_calls(f, ident):
    """[(bb, call_expr)] of calls that are handed the object `ident` (a named local or the result
    of a constructor call) as an argument"""
    out = []
    for bb in real_calls(f):
        if ident == ('C', bb):
            continue
        e = f.expr_call(bb)
        if e[0] != 'call':
            continue
        raw = f.blocks[bb]['t']['args']
        for i, a in enumerate(e[2]):
            if _ident(a) == ident and i < len(raw) and _is_mut_ref(f, raw[i]):
                out.append((bb, e))
                break
    return out


def _is_mut_ref(f, op, depth=0):
    """is the raw operand a `&mut` borrow (possibly through copies of temporaries)?"""
    if depth > 6 or 'c' in op:
        return False
    p = op.get('mv') or op.get('cp')
    if p is None:
        return False
    ty = f.locals[p['l']]['ty']
    if not p.get('p') and ty.startswith('&mut '):
        return True
    if p.get('p'):
        return False
    ds = f.defs(p['l'])
    if len(ds) != 1 or ds[0][0] != 'assign':
        return False
    rv = ds[0][3]
    if rv['k'] == 'ref':
        return bool(rv.get('mut'))
    if rv['k'] == 'use':
        return _is_mut_ref(f, rv['op'], depth + 1)
    if rv['k'] == 'cast':
        return _is_mut_ref(f, rv['op'], depth + 1)
    return False


def deps(f, e, depth=0, seen=None):
    """leaf access paths / constants an expression may depend on, following objects (named
    mutable locals and constructor results) through their initialiser and through every call
    that is handed the same object (reader.seek(..), read_exact(buf), ...), and multiply-assigned
    locals through all their definitions."""
    if seen is None:
        seen = set()
    out = set()
    if depth > 14:
        return out
    for x in walk(e):
        idn = _ident(x) if x[0] in ('var', 'mvar', 'call') else None
        if x[0] in ('var', 'mvar'):
            out.add(x[1])
        elif x[0] == 'field':
            out.add(show(x))
        elif x[0] == 'const' and x[2]:
            out.add(x[2])
        if idn is None or idn in seen:
            continue
        seen.add(idn)
        if idn[0] == 'L':
            for d in local_defs(f, idn[1]):
                out |= deps(f, d, depth + 1, seen)
        if idn[0] in ('L', 'C'):
            for bb, ce in sharing_calls(f, idn):
                # only calls that may mutate: the object is passed, and the call is a method-like
                for a in ce[2]:
                    out |= deps(f, a, depth + 1, seen)
    return out


# ------------------------------------------------------------------------------------------
# acyclic feasible path enumeration with per-path facts (rule kind K7 on loop bodies)
# ------------------------------------------------------------------------------------------
def _refine_discr(env, t, L, n):
    """environment after taking the edge to block n of the switch t on discriminant(L): a value edge
    records the variant, the otherwise edge records the variants it excludes (`if let`, `matches!`,
    `_ =>`); None when the edge contradicts what an earlier switch on the same value established"""
    excl = env.get(('nd', L), ())
    vals = [v for v, b2 in t['ts'] if b2 == n]
    if n != t['o']:
        live = [v for v in vals if v not in excl]
        if not live:
            return None
        if len(live) == 1:
            e2 = dict(env)
            e2[('d', L)] = live[0]
            e2.pop(('nd', L), None)
            return e2
        return env
    # otherwise edge (possibly shared with some values)
    if vals:
        return env
    e2 = dict(env)
    e2[('nd', L)] = tuple(sorted(set(excl) | {v for v, _ in t['ts']}))
    return e2


def enumerate_paths(f, start, stops, limit=20000):
    """all feasible acyclic block paths from `start` that end when a block of `stops` (or a
    return / dead end) is reached.  Feasibility = constant-temporary and discriminant tracking of
    Fn.explore.  Returns list of block lists (last element is the stop block)."""
    stops = set(stops)
    out = []
    dof = f._discr_of()

    def rec_(bb, env, path):
        if len(out) >= limit:
            raise AnchorMissing('path explosion in %s' % f.path)
        path = path + [bb]
        if bb in stops and len(path) > 1:
            out.append(path)
            return
        env2 = f._step_env(bb, dict(env))
        t = f.blocks[bb]['t']
        nxt = None
        dl = None
        if t['k'] == 'switch':
            op = t['d']
            p = op.get('cp') or op.get('mv')
            if p and not p.get('p') and p['l'] in env2:
                v = env2[p['l']]
                nxt = [t['o']]
                for val, b in t['ts']:
                    if val == v:
                        nxt = [b]
                        break
            if p and not p.get('p') and p['l'] in dof:
                dl = dof[p['l']]
        if nxt is None:
            nxt = f.succs(bb)
        if not nxt:
            out.append(path)
            return
        for n in nxt:
            if n in path or f.blocks[n].get('cleanup'):
                if n in stops:
                    out.append(path + [n])
                continue
            e3 = env2
            if dl is not None and ('d', dl) not in env2:
                e3 = _refine_discr(env2, t, dl, n)
                if e3 is None:
                    continue
            rec_(n, e3, path)
    rec_(start, {}, [])
    return out


def path_facts(f, path):
    """facts along one block path: atoms (branch conditions with the value taken; first
    observation wins, a later contradictory observation without an intervening store makes the
    path infeasible -> returns None), stores [(access_path, value_expr, bb)], calls [(bb, expr)]"""
    atoms = {}
    stores = []
    calls = []
    killed = set()
    for i, bb in enumerate(path):
        b = f.blocks[bb]
        for si, s in enumerate(b['s']):
            if s['k'] == 'assign' and s['lhs'].get('p'):
                p = access_path(f.expr_place(s['lhs']))
                v = f.expr_rvalue(s['rv'])
                stores.append((p, v, bb))
                # invalidate atoms that read this path
                for k in list(atoms):
                    if p and p in k:
                        killed.add(k)
            elif s['k'] == 'assign' and not s['lhs'].get('p'):
                nm = f._localnames.get(s['lhs']['l'])
                if nm and (len(f.defs(s['lhs']['l'])) > 1 or s['lhs']['l'] in f.mutable_locals()):
                    v = f.expr_rvalue(s['rv'])
                    stores.append((nm, v, bb))
                    for k in list(atoms):
                        if nm in k:
                            killed.add(k)
        t = b['t']
        if t['k'] == 'call' and not _is_wrapper_call(t):
            calls.append((bb, f.expr_call(bb)))
        if t['k'] == 'switch' and i + 1 < len(path):
            nxt = path[i + 1]
            e, ts, o = f.cond(bb)
            neg = False
            while True:
                if e[0] == 'unop' and e[1] == 'Not':
                    neg = not neg
                    e = e[2]
                    continue
                if e[0] == 'binop' and e[1] in ('Eq', 'Ne') and e[3][0] == 'const' and e[3][3] == 'bool':
                    if (e[1] == 'Eq') != bool(e[3][1]):
                        neg = not neg
                    e = e[2]
                    continue
                break
            key = show(e)
            if t.get('dty') == 'bool':
                val = (nxt == t['o'])
                if nxt == t['o'] and any(b2 == nxt for v2, b2 in t['ts']):
                    continue
                if neg:
                    val = not val
            else:
                vals = [v for v, b2 in t['ts'] if b2 == nxt]
                if len(vals) != 1:
                    # the otherwise edge of a two-variant enum (`if let Some(x) = ..`) names the other variant
                    names = f.facts.variant_names(e[2]) if e[0] == 'discr' else {}
                    rest = [v for v in names if v not in [v2 for v2, _ in t['ts']]]
                    if not vals and nxt == t['o'] and len(rest) == 1:
                        vals = rest
                    else:
                        continue
                val = vals[0]
                if e[0] == 'discr':
                    val = f.facts.variant_names(e[2]).get(val, val)
            if key in atoms and key not in killed:
                if atoms[key] != val:
                    return None
            elif key in killed:
                # re-observed after a store: later value is about the new state; keep the first
                pass
            else:
                atoms[key] = val
    return {'atoms': atoms, 'stores': stores, 'calls': calls, 'blocks': path}


def value_on_path(f, path, local, pos=None, depth=0):
    """expression of `local` as last defined along the block path (phi resolved by the path)"""
    if depth > 30:
        return f.expr_local(local)
    if pos is None:
        pos = (len(path), 0)
    best = None
    for pi in range(min(pos[0], len(path) - 1), -1, -1):
        bb = path[pi]
        b = f.blocks[bb]
        stmts = list(enumerate(b['s']))
        t = b['t']
        if t['k'] == 'call' and t['dest']['l'] == local and not t['dest'].get('p') and (pi < pos[0]):
            return _expr_with(f, path, ('call', bb), (pi, len(b['s'])), depth)
        for si, s in reversed(stmts):
            if pi == pos[0] and si >= pos[1]:
                continue
            if s['k'] == 'assign' and s['lhs']['l'] == local and not s['lhs'].get('p'):
                return _expr_with(f, path, ('rv', s['rv']), (pi, si), depth)
    return f.expr_local(local)


def _expr_with(f, path, what, pos, depth):
    def opnd(op):
        if 'c' in op:
            return f.expr_const(op['c'])
        p = op.get('cp') or op.get('mv')
        if p is None:
            return ('other', '')
        if p.get('p'):
            return f.expr_place(p)
        l = p['l']
        if 1 <= l <= f.argc or l in f._localnames and l in f.mutable_locals():
            return f.expr_local(l)
        return value_on_path(f, path, l, pos, depth + 1)
    if what[0] == 'rv':
        rv = what[1]
        k = rv['k']
        if k == 'use':
            return opnd(rv['op'])
        if k == 'binop':
            return ('binop', rv['op'], opnd(rv['a']), opnd(rv['b']))
        if k == 'unop':
            return ('unop', rv['op'], opnd(rv['a']))
        if k == 'cast':
            return ('cast', opnd(rv['op']), rv['ty'])
        return f.expr_rvalue(rv)
    return f.expr_call(what[1])


# ------------------------------------------------------------------------------------------
# MIR-level inlining of small crate-local callees (so that "extract helper" keeps a rule's view)
def _renumber(o, loff, boff, term=False):
    if isinstance(o, list):
        return [_renumber(x, loff, boff) for x in o]
    if not isinstance(o, dict):
        return o
    out = {}
    for k, v in o.items():
        if k in ('sp', 'fsp'):
            out[k] = v
        elif k == 'l' and isinstance(v, int):
            out[k] = v + loff
        else:
            out[k] = _renumber(v, loff, boff)
    return out


def _renumber_term(t, loff, boff):
    t2 = _renumber(t, loff, boff)
    for k in ('t', 'o', 'imag'):
        if isinstance(t.get(k), int):
            t2[k] = t[k] + boff
    if 'ts' in t:
        t2['ts'] = [[v, b + boff] for v, b in t['ts']]
    return t2


def inlinable(F, g, max_blocks=200):
    """a callee whose body can be spliced into its caller: crate-local, synchronous, not derived, small"""
    return not (g.derived or g.coroutine or F.is_async(g.path) or
                sum(1 for b in g.blocks if not b.get('cleanup')) > max_blocks)


def inline_fn(F, f, select, depth=2):
    """a copy of `f` in which every call to a crate-local function accepted by `select(callee)` is replaced by the
    callee's body (locals and blocks renumbered, arguments assigned to the parameter locals, `return` turned into
    an assignment to the call's destination).  Returns f itself when nothing was inlined."""
    import copy
    raw = None
    for _ in range(depth):
        cur = raw or f.raw
        sites = []
        for bi, b in enumerate(cur['blocks']):
            t = b['t']
            if t['k'] != 'call' or b.get('cleanup'):
                continue
            tgt = t.get('resolved') if t.get('resolved') in F.fns else t.get('callee')
            if tgt in F.fns and tgt != f.path and inlinable(F, F.fns[tgt]) and select(F.fns[tgt]):
                sites.append((bi, tgt))
        if not sites:
            break
        if raw is None:
            raw = copy.deepcopy(f.raw)
        for bi, tgt in sites:
            g = F.fns[tgt].raw
            loff = len(raw['locals'])
            boff = len(raw['blocks'])
            raw['locals'].extend(copy.deepcopy(g['locals']))
            for v in g['vars']:
                if 'place' in v:
                    v2 = {k: x for k, x in v.items() if k != 'arg'}
                    v2['place'] = _renumber(v['place'], loff, boff)
                    v2['inl'] = tgt
                    raw['vars'].append(v2)
            call = raw['blocks'][bi]
            ct = call['t']
            for b in g['blocks']:
                nb = {'s': _renumber(b['s'], loff, boff), 'cleanup': b.get('cleanup', False), 'inl': tgt}
                t = b['t']
                if t['k'] == 'return':
                    nb['s'] = nb['s'] + [{'k': 'assign', 'lhs': ct['dest'], 'rv': {'k': 'use', 'op': {'mv': {'l': loff}}},
                                          'sp': t.get('sp')}]
                    if 't' in ct:
                        nb['t'] = {'k': 'goto', 't': ct['t'], 'sp': t.get('sp')}
                    else:
                        nb['t'] = {'k': 'unreachable', 'sp': t.get('sp')}
                else:
                    nb['t'] = _renumber_term(t, loff, boff)
                raw['blocks'].append(nb)
            for i, a in enumerate(ct.get('args', [])):
                call['s'].append({'k': 'assign', 'lhs': {'l': loff + 1 + i}, 'rv': {'k': 'use', 'op': a}, 'sp': ct.get('sp')})
            call['t'] = {'k': 'goto', 't': boff, 'sp': ct.get('sp'), 'inlined_call': tgt}
    if raw is None:
        return f
    nf = Fn(F, raw)
    nf.inlined_from = f
    return nf



# ------------------------------------------------------------------------------------------
# iterator adaptor chains: the element a chain yields, as one expression over the source element
ELEM = ('var', '$elem')


def closure_param(cf, n=2):
    return cf._argnames.get(n) or 'arg%d' % n


def closure_result(cf):
    """expression a (non-capturing-control-flow) closure returns: the value of its return place"""
    return cf.expr_local(0)


def some_payloads(cf):
    """distinct payload expressions of the Option::Some values built in a closure body"""
    seen = {}
    for bi, si, e in agg_sites(cf, r'^std::option::Option$', 'Some'):
        seen.setdefault(show(e[4][0][1]), e[4][0][1])
    return list(seen.values())


def compose_chain(F, f, e):
    """for an iterator-adaptor chain expression `e` in `f` (e.g. collect(filter_map(filter_map(iter(src), c0), c1))):
    returns (src_expr, elem_expr, adaptors) where elem_expr is what the chain yields per source element, written over the
    placeholder ELEM (closure parameters substituted stage by stage; filter_map contributes the payload of its Some),
    and adaptors is the list of adaptor names from the source outwards.  Raises AnchorMissing when a stage is not understood."""
    stages = []
    x = e
    while True:
        while x[0] == 'cast':
            x = x[1]
        if x[0] == 'mvar':
            x = init_of(x)
            continue
        if x[0] != 'call' or not x[2]:
            break
        nm = x[4].get('name')
        if nm in ('iter', 'into_iter', 'iter_mut', 'drain', 'values', 'keys'):
            if x[2][0][0] == 'call' and x[2][0][4].get('name') in ('iter', 'into_iter', 'filter_map', 'map', 'filter', 'enumerate'):
                x = x[2][0]
                continue
            stages.append((nm, None))
            x = x[2][0]
            break
        clo = [a for a in x[2][1:] if a[0] == 'closure']
        stages.append((nm, clo[0][1] if clo else None))
        x = x[2][0]
    src = x
    stages.reverse()
    elem = ELEM
    names = []
    for nm, clo in stages:
        names.append(nm)
        if nm in ('iter', 'into_iter', 'iter_mut', 'collect', 'filter', 'inspect', 'peekable', 'by_ref', 'cloned', 'copied', 'fuse',
                  'rev', 'skip', 'take', 'step_by', 'skip_while', 'take_while', 'drain', 'values', 'keys', 'count', 'last', 'next'):
            continue
        if nm == 'enumerate':
            elem = ('agg', 'tuple', None, None, (('0', ('var', '$index')), ('1', elem)))
            continue
        if nm in ('filter_map', 'map', 'flat_map', 'find_map', 'map_while') and clo:
            cf = F.fn(clo)
            if nm == 'map':
                body = closure_result(cf)
            else:
                ps = some_payloads(cf)
                if len(ps) != 1:
                    raise AnchorMissing('%s closure %s yields %d different payloads' % (nm, clo, len(ps)))
                body = ps[0]
            elem = _subst(body, {closure_param(cf): 0}, [elem])
            continue
        raise AnchorMissing('adaptor %s in %s is not understood' % (nm, f.path))
    return src, elem, names


def param_root(f, e):
    """True when expression e is rooted at a parameter of f"""
    p = access_path(e) or ''
    root = p.split('.')[0].split('<')[0].split('[')[0]
    return any(v.get('n') == root and 'arg' in v for v in f.raw['vars']) or re.match(r'arg\d+$', root) is not None


def option_tests(f):
    """[(subject_expr, switch_bb, none_target, some_target)] for every test of an Option in f: a match / if-let on its
    discriminant, or a branch on is_none() / is_some() (with `!`, `== false`)"""
    out = []
    for sb in f.switches():
        e, ts, o = f.cond(sb)
        if e[0] == 'discr' and e[2].startswith('std::option::Option'):
            ve = f.variant_edges(sb, fill=True)
            if ve and 'None' in ve and 'Some' in ve:
                out.append((e[1], sb, ve['None'], ve['Some']))
            continue
        neg = False
        while True:
            if e[0] == 'unop' and e[1] == 'Not':
                neg = not neg
                e = e[2]
                continue
            if e[0] == 'binop' and e[1] in ('Eq', 'Ne') and e[3][0] == 'const' and e[3][3] == 'bool':
                if (e[1] == 'Eq') != bool(e[3][1]):
                    neg = not neg
                e = e[2]
                continue
            break
        be = f.bool_edges(sb)
        if be and e[0] == 'call' and e[4].get('name') in ('is_none', 'is_some') and e[2]:
            tt, ff = (be[1], be[0]) if neg else be
            if e[4]['name'] == 'is_none':
                out.append((e[2][0], sb, tt, ff))
            else:
                out.append((e[2][0], sb, ff, tt))
    return out



def canon_atoms(atoms):
    """branch atoms with comparison keys in one polarity: Ne -> !Eq, Ge -> !Lt, Le -> !Gt, ne() -> !eq()"""
    out = {}
    for k, v in atoms.items():
        if isinstance(v, bool):
            for a, b in (('Ne(', 'Eq('), ('Ge(', 'Lt('), ('Le(', 'Gt('), ('std::cmp::PartialEq::ne(', 'std::cmp::PartialEq::eq('),
                         ('std::cmp::PartialOrd::ge(', 'std::cmp::PartialOrd::lt('), ('std::cmp::PartialOrd::le(', 'std::cmp::PartialOrd::gt(')):
                if k.startswith(a):
                    k, v = b + k[len(a):], not v
                    break
        out[k] = v
    return out


def peel_ok(e):
    """the value a fallible expression yields on success: strips `x?`, `x.await`-less casts and the explicit
    `match x { Ok(v) => v, .. }` / `Some(v)` payload projection, down to the producing expression"""
    for _ in range(12):
        if e[0] in ('try', 'cast'):
            e = e[1]
        elif e[0] == 'field' and e[2] == '0' and e[1][0] == 'variant' and e[1][2] in ('Ok', 'Some'):
            e = e[1][1]
        else:
            break
    return e
