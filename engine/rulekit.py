"""rule-table plumbing shared by runner and rule modules"""

# ------------------------------------------------------------------------------------------
# obligations
# ------------------------------------------------------------------------------------------
class Rule:
    def __init__(self, oid, kind, title, fn, floor=1, tier='quick'):
        self.oid = oid
        self.kind = kind
        self.title = title
        self.fn = fn
        self.floor = floor
        self.tier = tier


class Rec:
    """recorder handed to one obligation"""

    def __init__(self, prop, rule):
        self.prop = prop
        self.rule = rule
        self.sites = []
        self.violations = []
        self.notes = []

    def site(self, f, bb=None, note=''):
        loc = f.loc(bb) if hasattr(f, 'loc') else str(f)
        path = f.path if hasattr(f, 'path') else ''
        self.sites.append({'fn': path, 'loc': loc, 'note': note[:300]})

    def note(self, text):
        self.notes.append(text[:400])

    def violation(self, key, f, bb, msg):
        loc = f.loc(bb) if hasattr(f, 'loc') else str(f)
        path = f.path if hasattr(f, 'path') else str(f)
        full = '%s/%s/%s' % (self.prop, self.rule.oid, key)
        self.violations.append({'key': full, 'fn': path, 'loc': loc, 'msg': msg,
                                'obligation': self.rule.oid, 'rule_kind': self.rule.kind,
                                'title': self.rule.title})

    def need(self, cond, key, f, bb, msg):
        if not cond:
            self.violation(key, f, bb, msg)
        return bool(cond)


class Table:
    def __init__(self, prop):
        self.prop = prop
        self.rules = []

    def rule(self, oid, kind, title, floor=1, tier='quick'):
        def deco(fn):
            self.rules.append(Rule(oid, kind, title, fn, floor, tier))
            return fn
        return deco


