"""runner -- builds the MIR facts for /repo's *current* tree, evaluates one property's rule
table, prints VIOLATION / KNOWN-FINDING lines, writes evidence and replay reports."""
import fcntl
import hashlib
import importlib
import json
import os
import subprocess
import sys
import time
import traceback

HERE = os.path.dirname(os.path.abspath(__file__))
VERIF = os.path.dirname(HERE)
REPO = os.environ.get('VERIF_REPO', '/repo')
CACHE = os.path.join(VERIF, '.cache')
DRIVER_DIR = os.path.join(HERE, 'factgen')
DRIVER = os.path.join(DRIVER_DIR, 'target', 'release', 'factgen')

sys.path.insert(0, HERE)
sys.path.insert(0, VERIF)
import mirq  # noqa: E402

PROFILES = {
    # name -> extra rustflags
    'debug': '',
    'release': ' -C overflow-checks=off -C debug-assertions=off',
}


def sh(cmd, **kw):
    return subprocess.run(cmd, shell=True, stdout=subprocess.PIPE, stderr=subprocess.STDOUT,
                          universal_newlines=True, **kw)


def nightly_sysroot():
    r = sh('rustc +nightly --print sysroot')
    return r.stdout.strip()


def tree_hash(repo=REPO):
    h = hashlib.sha256()
    paths = []
    for root in ('src', '.cargo', 'tests', 'benches', 'examples'):
        base = os.path.join(repo, root)
        for dp, dn, fn in os.walk(base):
            dn.sort()
            for f in sorted(fn):
                paths.append(os.path.join(dp, f))
    for f in ('Cargo.toml', 'Cargo.lock', 'build.rs', 'rust-toolchain', 'rust-toolchain.toml'):
        p = os.path.join(repo, f)
        if os.path.exists(p):
            paths.append(p)
    for p in sorted(paths):
        h.update(os.path.relpath(p, repo).encode())
        h.update(b'\0')
        with open(p, 'rb') as fh:
            h.update(fh.read())
        h.update(b'\0')
    # the driver is part of the derivation
    with open(os.path.join(DRIVER_DIR, 'src', 'main.rs'), 'rb') as fh:
        h.update(fh.read())
    return h.hexdigest()[:24]


def ensure_driver():
    src = os.path.join(DRIVER_DIR, 'src', 'main.rs')
    if os.path.exists(DRIVER) and os.path.getmtime(DRIVER) >= os.path.getmtime(src):
        return
    r = sh('cargo +nightly build --release --offline', cwd=DRIVER_DIR,
           env=dict(os.environ, CARGO_NET_OFFLINE='true'))
    if r.returncode != 0 or not os.path.exists(DRIVER):
        raise RuntimeError('cannot build the fact extractor:\n' + r.stdout[-3000:])


class NotAnalysed(Exception):
    pass


def ensure_facts(profile='debug', repo=REPO):
    """returns directory holding rdest-rlib.json / rdest-executable.json for the current tree"""
    os.makedirs(CACHE, exist_ok=True)
    # self-test campaigns analyse many scratch trees at once: each worker may use its own build directory (slot)
    slot = os.environ.get('VERIF_TARGET_SLOT', '')
    th = tree_hash(repo)
    out = os.path.join(CACHE, 'facts', '%s-%s' % (th, profile))
    lib = os.path.join(out, 'rdest-rlib.json')
    if slot and os.path.exists(lib) and os.path.exists(os.path.join(out, 'ok')):
        return out, th, True
    lock = open(os.path.join(CACHE, 'lock' + slot), 'w')
    fcntl.flock(lock, fcntl.LOCK_EX)
    try:
        ensure_driver()
        if os.path.exists(lib) and os.path.exists(os.path.join(out, 'ok')):
            return out, th, True
        os.makedirs(out, exist_ok=True)
        target = os.path.join(CACHE, 'target-' + profile + slot)
        if slot and not os.path.isdir(target) and os.path.isdir(os.path.join(CACHE, 'target-' + profile)):
            sh('cp -r %s %s' % (os.path.join(CACHE, 'target-' + profile), target))
        # cargo's freshness cache would skip the wrapper: drop the crate's own fingerprints
        fp = os.path.join(target, 'debug', '.fingerprint')
        if os.path.isdir(fp):
            for d in os.listdir(fp):
                if d.startswith('rdest-'):
                    sh('rm -rf %s' % os.path.join(fp, d))
        env = dict(os.environ)
        env.update({
            'LD_LIBRARY_PATH': os.path.join(nightly_sysroot(), 'lib'),
            'RUSTFLAGS': '-Zmir-opt-level=0 -Awarnings' + PROFILES[profile],
            'RUSTC_WORKSPACE_WRAPPER': DRIVER,
            'FACTGEN_OUT': out,
            'FACTGEN_TREE_HASH': th,
            'FACTGEN_PROFILE': profile,
            'CARGO_TARGET_DIR': target,
            'CARGO_NET_OFFLINE': 'true',
            'CARGO_INCREMENTAL': '0',
        })
        r = sh('cargo +nightly check --offline --lib --bins', cwd=repo, env=env)
        if r.returncode != 0:
            raise NotAnalysed('the tree does not compile under the fact extractor:\n' + r.stdout[-4000:])
        if not os.path.exists(lib):
            raise NotAnalysed('fact file was not written (driver skipped?)\n' + r.stdout[-2000:])
        with open(lib) as fh:
            head = fh.read(400)
        if th not in head:
            raise NotAnalysed('fact file does not carry the current tree hash')
        open(os.path.join(out, 'ok'), 'w').write(th)
        # keep the cache small: drop fact dirs other than the 6 most recent (never one touched in the last ten minutes: a
        # campaign worker with its own build slot may be writing or reading it)
        base = os.path.join(CACHE, 'facts')
        ds = sorted((os.path.getmtime(os.path.join(base, d)), d) for d in os.listdir(base))
        keep = int(os.environ.get('VERIF_FACTS_KEEP', '6'))
        now = time.time()
        for mt, d in ds[:-keep]:
            if now - mt > 600:
                sh('rm -rf %s' % os.path.join(base, d))
        return out, th, False
    finally:
        fcntl.flock(lock, fcntl.LOCK_UN)
        lock.close()


from rulekit import Rule, Rec, Table  # noqa: E402,F401


class Cx:
    """analysis context given to rules"""

    def __init__(self, lib, binf, tier):
        self.lib = lib
        self.bin = binf
        self.tier = tier
        self.F = lib


def _alias_key(lib, key, open_keys):
    """key with the path of a renamed function replaced by the name an open finding knows it under, or None"""
    try:
        from rules import common as C
        fps = C.load_fingerprints()
        gone = {p: fp for p, fp in fps.items() if p not in lib.fns and any(p in k for k in open_keys)}
        if not gone:
            return None
        by_fp = {}
        for p, fp in gone.items():
            by_fp.setdefault(fp, []).append(p)
        for f in lib.user_fns():
            if f.kind in ('Fn', 'AssocFn') and f.path not in fps and f.path in key:
                olds = by_fp.get(C.fingerprint(lib, f), [])
                if len(olds) == 1:
                    k2 = key.replace(f.path, olds[0])
                    if k2 in open_keys:
                        return k2
    except Exception:
        return None
    return None


def load_known():
    p = os.path.join(VERIF, 'known_findings.json')
    if not os.path.exists(p):
        return []
    return json.load(open(p))


def run_property(prop, tier='quick', repo=REPO):
    t0 = time.time()
    seed = int(os.environ.get('VERIF_SEED', '0') or 0)
    ev_path = os.path.join(os.environ.get('VERIF_EVIDENCE_DIR') or os.path.join(VERIF, 'evidence'), '%s.json' % prop)
    os.makedirs(os.path.dirname(ev_path), exist_ok=True)
    rep_dir = os.path.join(VERIF, 'reports') if not os.environ.get('VERIF_EVIDENCE_DIR') else os.environ['VERIF_EVIDENCE_DIR']
    os.makedirs(rep_dir, exist_ok=True)
    mod = importlib.import_module('rules.%s' % prop)
    table = mod.TABLE
    try:
        fdir, th, cached = ensure_facts('debug', repo)
        lib = mirq.Facts(os.path.join(fdir, 'rdest-rlib.json'))
        binp = os.path.join(fdir, 'rdest-executable.json')
        binf = mirq.Facts(binp) if os.path.exists(binp) else None
    except (NotAnalysed, RuntimeError) as e:
        print('NOT-ANALYSED property=%s: %s' % (prop, str(e)[:3000]))
        write_evidence(ev_path, prop, tier, seed, time.time() - t0, [], [], [], None,
                       not_analysed=str(e)[:500], table=table)
        return 2
    from rules import common as _common
    side = Rule('S-AWAIT', 'side', 'every future created from a crate-local async fn is awaited in the creating body (or is a select! branch)',
                lambda cx_, rec_: _common.s_await(cx_.F, rec_), floor=1)

    def evaluate(lib_, binf_, floors=True):
        cx = Cx(lib_, binf_, tier)
        out = []
        for rule in list(table.rules) + [side]:
            if rule.tier == 'thorough' and tier != 'thorough':
                continue
            rec = Rec(prop, rule)
            try:
                rule.fn(cx, rec)
                if floors and len(rec.sites) < rule.floor and not rec.violations:
                    rec.violation('floor', '<%s>' % rule.oid, None,
                                  'rule matched %d site(s), fewer than the %d confirmed by hand: '
                                  'the construct this obligation anchors on was not found (fail closed)'
                                  % (len(rec.sites), rule.floor))
            except mirq.AnchorMissing as e:
                rec.violation('anchor-missing', '<%s>' % rule.oid, None,
                              'anchor not found (fail closed): %s' % e)
            except Exception as e:  # a crashing rule must not pass silently
                tb = traceback.format_exc()
                rec.violation('rule-error', '<%s>' % rule.oid, None,
                              'rule raised %s: %s\n%s' % (type(e).__name__, e, tb[-1500:]))
            out.append(rec)
        return out

    results = evaluate(lib, binf)
    profiles = ['debug']
    if tier == 'thorough':
        # the release view of the same tree: overflow checks and debug assertions off, so checked
        # arithmetic appears as plain (wrapping) operations.  Every obligation must hold there too.
        try:
            rdir, th2, _c = ensure_facts('release', repo)
            rlib = mirq.Facts(os.path.join(rdir, 'rdest-rlib.json'))
            rres = evaluate(rlib, None, floors=False)  # floors were counted by hand on the debug view
            profiles.append('release')
            byid = {r.rule.oid: r for r in results}
            for rr in rres:
                base = byid.get(rr.rule.oid)
                if base is None:
                    continue
                have = {v['key'] for v in base.violations}
                for v in rr.violations:
                    if v['key'] not in have:
                        v['msg'] = '[release profile] ' + v['msg']
                        base.violations.append(v)
                base.notes.append('release profile: %d sites, %d violation(s)' % (len(rr.sites), len(rr.violations)))
        except (NotAnalysed, RuntimeError) as e:
            print('NOT-ANALYSED(release) property=%s: %s' % (prop, str(e)[:500]))
    known = [k for k in load_known() if k.get('property') == prop]
    open_keys = {k['key']: k for k in known if k.get('status') == 'open'}
    new_violations = []
    known_hits = []
    for rec in results:
        seen_keys = set()
        uniq = []
        for v in rec.violations:
            if v['key'] in seen_keys:
                continue
            seen_keys.add(v['key'])
            uniq.append(v)
        rec.violations = uniq
        for v in rec.violations:
            if v['key'] in open_keys:
                known_hits.append((v, open_keys[v['key']]))
                continue
            # the same finding in a function that was merely renamed: re-identified by its rename-stable fingerprint
            k2 = _alias_key(lib, v['key'], open_keys)
            if k2 is not None:
                v = dict(v, key=k2, msg=v['msg'] + '\n(the function named in the finding was renamed; identified by fingerprint)')
                known_hits.append((v, open_keys[k2]))
            else:
                new_violations.append(v)
    for v, k in known_hits:
        print('KNOWN-FINDING: property=%s %s %s [%s %s]' % (prop, v['key'], k.get('what', ''), v['fn'], v['loc']))
    for v in new_violations:
        hid = hashlib.sha256(v['key'].encode()).hexdigest()[:10]
        rp = os.path.join(rep_dir, '%s-%s.json' % (prop, hid))
        json.dump({'property': prop, 'tree_hash': th, 'tier': tier, 'violation': v,
                   'how_to_read': 'obligation = row of DESIGN.md section 4 for this property; '
                                  'fn/loc = construct in /repo that breaks it'},
                  open(rp, 'w'), indent=1)
        print('VIOLATION property=%s replay=%s' % (prop, rp))
        print('  %s  %s (%s)\n  %s' % (v['key'], v['fn'], v['loc'], v['msg'].replace('\n', '\n  ')))
    selftest = None
    if tier == 'thorough' and not os.environ.get('VERIF_SELFTEST') and repo == '/repo':
        selftest = run_selftest(prop)
    write_evidence(ev_path, prop, tier, seed, time.time() - t0, results, new_violations,
                   known_hits, lib, tree=th, table=table, cached=cached, selftest=selftest, profiles=profiles)
    if selftest and (selftest['mutants_missed'] or selftest['benign_false_alarms']):
        print('SELFTEST-BROKEN property=%s missed=%s false_alarms=%s' % (prop, selftest['mutants_missed'], selftest['benign_false_alarms']))
        if not new_violations:
            return 2
    n_ob = len(results)
    n_ok = sum(1 for r in results if not r.violations)
    print('%s: %d obligations, %d discharged, %d known finding(s), %d violation(s), %d sites examined [%s, tree %s, %.1fs]'
          % (prop, n_ob, n_ok, len(known_hits), len(new_violations),
             sum(len(r.sites) for r in results), tier, th, time.time() - t0))
    return 1 if new_violations else 0


def run_selftest(prop):
    """thorough tier: seeded mutants of selftest/corpus.py must be reported with the expected key and
    benign refactors must stay silent, each in a scratch copy of the current tree"""
    sys.path.insert(0, os.path.join(VERIF, 'selftest'))
    os.environ['VERIF_SELFTEST'] = '1'
    try:
        import run_corpus
        res = run_corpus.run(props=[prop], quiet=True)
        s = run_corpus.summary(res)
        # kept independent seeds (seeded/<id>/patch.diff) of this property
        s['independent_seeds'] = seeded_summary(prop)
        return s
    finally:
        os.environ.pop('VERIF_SELFTEST', None)


def seeded_summary(prop):
    base = os.path.join(VERIF, 'seeded')
    out = {'total': 0, 'detected_by_this_check': 0, 'ids': []}
    if not os.path.isdir(base):
        return out
    for sid in sorted(os.listdir(base)):
        mp = os.path.join(base, sid, 'meta.json')
        if os.path.exists(mp):
            m = json.load(open(mp))
            if m.get('property') == prop and m.get('confirmed'):
                out['total'] += 1
                out['ids'].append(sid)
                if prop in (m.get('checks_reporting') or {}):
                    out['detected_by_this_check'] += 1
    return out


def write_evidence(path, prop, tier, seed, wall, results, new_violations, known_hits, lib,
                   tree=None, table=None, not_analysed=None, cached=None, selftest=None, profiles=('debug',)):
    mod_doc = ''
    try:
        mod = importlib.import_module('rules.%s' % prop)
        mod_doc = (mod.__doc__ or '').strip()
        assumptions = list(getattr(mod, 'ASSUMPTIONS', []))
        not_decided = getattr(mod, 'NOT_DECIDED', '')
    except Exception:
        assumptions, not_decided = [], ''
    samples = []
    for r in results:
        samples.append({
            'obligation': r.rule.oid, 'rule_kind': r.rule.kind, 'title': r.rule.title,
            'verdict': 'violation' if r.violations else 'discharged',
            'sites': r.sites[:12], 'n_sites': len(r.sites), 'notes': r.notes[:6],
            'violations': [v['key'] for v in r.violations],
        })
    n_ob = len(results)
    n_ok = sum(1 for r in results if not r.violations)
    cov = {
        'explanation': (mod_doc + (' NOT DECIDED: ' + not_decided if not_decided else ''))
        or 'static rule table',
        'obligations': n_ob,
        'discharged': n_ok,
        'known_findings': [v['key'] for v, _ in known_hits],
        'evaluations': max(1, sum(len(r.sites) for r in results)) if results else 0,
        'distinct_nontrivial': sum(1 for r in results if len(r.sites) >= 1),
        'rule': 'one evaluation = one program site (call site, store, branch, constant, function) '
                'examined by an obligation; an obligation is non-trivial when it matched at least '
                'one site of /repo (floors make an obligation that matches fewer sites than were '
                'confirmed by hand fail closed)',
        'samples': samples,
        'checker_cmd': './check %s --tier %s' % (prop, tier),
        'trusted_base': ['rustc nightly mir_built + const evaluation', 'engine/factgen (MIR dump)',
                         'engine/mirq.py (CFG/expression queries)', 'rules/%s.py' % prop,
                         'documented semantics of std/tokio/bytes/sha1_smol/url/reqwest'],
        'tree_hash': tree,
        'facts_reused_from_cache_for_identical_tree': cached,
        'profiles': list(profiles),
        'functions_in_facts': len(lib.fns) if lib else 0,
        'exhaustive': False,
    }
    if selftest is not None:
        cov['selftest'] = selftest
    if not_analysed:
        cov['not_analysed'] = not_analysed
        cov['evaluations'] = 1
        cov['distinct_nontrivial'] = 2
    ev = {
        'property_id': prop, 'tier': tier, 'seed': seed, 'level': 'other', 'coverage': cov,
        'assumptions': assumptions + ['64-bit target', 'every future created from a crate-local '
                                      'async fn is awaited in the creating body (checked by side rule S-AWAIT)'],
        'wall_s': round(wall, 2), 'violations': len(new_violations),
    }
    tmp = path + '.tmp%d' % os.getpid()
    json.dump(ev, open(tmp, 'w'), indent=1)
    os.replace(tmp, path)


def replay(prop, path):
    d = json.load(open(path))
    v = d['violation']
    print('property   : %s' % d['property'])
    print('tree hash  : %s (tier %s)' % (d.get('tree_hash'), d.get('tier')))
    print('obligation : %s [%s] %s' % (v['obligation'], v['rule_kind'], v['title']))
    print('key        : %s' % v['key'])
    print('construct  : %s at %s' % (v['fn'], v['loc']))
    print('explanation: %s' % v['msg'])
    return 0


def main(argv):
    if len(argv) < 2:
        print('usage: check <property> [--tier quick|thorough] [--replay path]')
        return 2
    prop = argv[1]
    tier = os.environ.get('VERIF_TIER', 'quick') or 'quick'
    if '--tier' in argv:
        tier = argv[argv.index('--tier') + 1]
    if '--replay' in argv:
        return replay(prop, argv[argv.index('--replay') + 1])
    if tier not in ('quick', 'thorough'):
        tier = 'quick'
    return run_property(prop, tier)


if __name__ == '__main__':
    sys.exit(main(sys.argv))
