"""C11 -- the client never advertises a piece it has not verified (ordering / ownership clauses).

Decides: (1) the bitfield sent after the handshake maps each status through `status == Have`, in
index order, and is the only source of InitCmd::SendBitfield, which the connection task sends only
as the reply to its Init request (i.e. after the handshake exchange); (2) SendHave is broadcast
only from the PieceDone handler after the Have store (shared with C01); (3) no-drop: for a
SendHave command every path to the normal return either sends Have(index) or appends it to the
deferred buffer, selected by whether the peer chokes us; (4) the deferred buffer is FIFO: only
push / iter / is_empty / clear are ever applied to it, clear happens only after the flush loop has
sent every element, and the flush runs when the peer unchokes us; (5) Have frames are built only
there.  (6) structural finding: the select! branch on the broadcast receiver discards RecvError
(Lagged) by a refutable pattern."""
import re
import mirq
from mirq import show, access_path, AnchorMissing, const_of, walk
from rulekit import Table
from rules import common as C
from rules import vocab as V
from rules import C07, C01

TABLE = Table('C11')
NOT_DECIDED = ('delivery under broadcast overflow (tokio::broadcast drops the oldest of more than 32 pending commands '
               'for a slow receiver; whether that happens is run-time scheduling); "at that moment" atomicity across tasks.')


def broad_dispatch(F):
    for f, sb in C.fns_switching_on(F, r'^commands::BroadCmd$', min_arms=2):
        if f.path.startswith('peer_handler::'):
            return f, sb
    raise AnchorMissing('peer task does not dispatch on BroadCmd')


def deferred_buffer(F):
    """access path of the peer task's buffer of frames waiting for the peer to unchoke us (the Vec<Frame> field)"""
    adt, name = C.field_by_type(F, r'^std::vec::Vec<frame::Frame>$', 'deferred frame buffer', r'^peer_handler::')
    return 'self.' + name


@TABLE.rule('1', 'K7', 'bitfield after handshake = map(status == Have) in index order; only source of SendBitfield; sent only as the reply to Init', floor=3)
def r1(cx, rec):
    F = cx.F
    builders = C.fns_constructing(F, r'^commands::InitCmd$', 'SendBitfield')
    B = C.one(builders, 'constructor of InitCmd::SendBitfield')
    for bi, si, e in mirq.agg_sites(B, r'^commands::InitCmd$', 'SendBitfield'):
        bf = dict(e[4])['bitfield']
        rec.site(B, bi, show(bf)[:160])
        okc = bf[0] == 'call' and bf[1].endswith('Bitfield::from_vec')
        rec.need(okc, 'bitfield-source', B, bi, 'bitfield is %s' % show(bf)[:100])
        chain = []
        x = bf[2][0] if okc else bf
        clo = None
        while x[0] == 'call':
            chain.append(x[4].get('name'))
            for y in x[2][1:]:
                if y[0] == 'closure':
                    clo = y
            x = x[2][0] if x[2] else ('other', '')
        src = access_path(x)
        rec.need(chain == ['collect', 'map', 'iter'] and src is not None and V.is_status_seq(B, x), 'bitfield-chain', B, bi,
                 'bitfield is built by %s over %s (expected iter().map().collect() over the status vector)' % (chain, src))
        if clo:
            cf = F.fn(clo[1])
            ret = None
            for b2, b in enumerate(cf.blocks):
                t = b['t']
                if t['k'] == 'call' and t['dest']['l'] == 0 and not b.get('cleanup'):
                    ret = cf.expr_call(b2)
            okp = ret is not None and ret[4].get('name') == 'eq' and access_path(ret[2][0]) in ('status', 'arg2') and ret[2][1][0] == 'agg' and ret[2][1][3] == 'Have'
            rec.site(cf, None, 'predicate %s' % (show(ret)[:80] if ret else None))
            rec.need(okp, 'bitfield-predicate', cf, None,
                     'a piece is advertised when %s: it must be exactly `status == Have` (Reserved/Missing pieces are not owned)' % (show(ret)[:80] if ret else 'unknown'))
        else:
            rec.violation('bitfield-predicate', B, bi, 'no mapping closure')
    # the handler sends the bitfield only as the reply to its Init request
    inits = C.fns_constructing(F, r'^commands::PeerCmd$', 'Init')
    I = C.one(inits, 'sender of PeerCmd::Init')
    sends = [bb for bb in mirq.real_calls(I) if 'send_msg' in (I.blocks[bb]['t'].get('callee') or '') and 'Bitfield' in ''.join(I.blocks[bb]['t'].get('gargs') or [])]
    rec.need(len(sends) == 1, 'bitfield-send', I, None, 'bitfield send sites in the Init sender: %d' % len(sends))
    for sb in sends:
        a = show(I.expr_call(sb)[2][1])
        rec.site(I, sb, 'sends %s' % a[-80:])
        rec.need('SendBitfield' in a and 'await(' in a, 'bitfield-not-from-reply', I, sb, 'the bitfield sent is %s, not the manager\'s reply' % a[-100:])
    others = []
    for f in F.user_fns():
        for bb in mirq.real_calls(f):
            t = f.blocks[bb]['t']
            if 'send_msg' in (t.get('callee') or '') and (t.get('gargs') or [''])[0].endswith('::Bitfield') and f.path != I.path \
                    and not f.path.startswith('connection::'):
                others.append((f, bb))
    rec.need(not others, 'bitfield-sent-elsewhere', I, None, 'bitfields are sent from %s' % [o[0].path for o in others])


@TABLE.rule('2', 'K1+K2', 'SendHave only from the PieceDone handler, after the Have store, same index', floor=1)
def r2(cx, rec):
    C01.r7(cx, rec)


@TABLE.rule('2b', 'K1', 'PieceDone (hence SendHave) requires that the verified piece was really written (shared with C01)', floor=2)
def r2b(cx, rec):
    C01.r5b(cx, rec)
    C01.r5(cx, rec)


@TABLE.rule('3', 'K1', 'no-drop: SendHave{i} leads to send Have(i) or to buffering Have(i), chosen by peer_state.choked', floor=3)
def r3(cx, rec):
    F = cx.F
    f, sb = broad_dispatch(F)
    scopes = C.arm_scopes(F, f, sb, 'SendHave')
    tgt = scopes[0].start
    total_s = total_p = 0
    covered_calls = []    # helper calls in the dispatcher that themselves never return Ok without send/buffer
    sel = False
    for sc in scopes:
        g = sc.fn
        sends = []
        pushes = []
        for bb in mirq.real_calls(g):
            if bb not in sc.region:
                continue
            t = g.blocks[bb]['t']
            ce = g.expr_call(bb)
            if 'send_msg' in (t.get('callee') or '') and (t.get('gargs') or [''])[0].endswith('::Have'):
                arg = sc.outer(ce[2][1])
                okk = arg[0] == 'call' and arg[1].endswith('Have::new') and 'SendHave>.piece_index' in show(arg[2][0])
                sends.append((bb, okk))
            if t.get('name') == 'push' and (access_path(ce[2][0]) or '') == deferred_buffer(F):
                a = show(sc.outer(ce[2][1]))
                okk = 'Have::new' in a and 'SendHave>.piece_index' in a and 'frame::Frame::Have' in a
                pushes.append((bb, okk))
        for bb, okk in sends:
            rec.site(g, bb, 'send Have(index of the command): %s' % okk)
            rec.need(okk, 'have-wrong-index/send', g, bb, 'the Have sent does not carry the command\'s piece index')
        for bb, okk in pushes:
            rec.site(g, bb, 'buffer Frame::Have(index of the command): %s' % okk)
            rec.need(okk, 'have-wrong-index/buffer', g, bb, 'the buffered frame is not Have(command index)')
        total_s += len(sends)
        total_p += len(pushes)
        via = [bb for bb, _ in sends] + [bb for bb, _ in pushes]
        if sc.via is not None and via:
            ok, bad = C.must_pass(g, via, C.ok_exit_blocks(g), start=0)
            if ok:
                covered_calls.append(sc.via)
        if sc.via is None:
            own_via = via
        # selection by the choke flag
        for s2 in g.switches():
            ce, ts2, o2 = g.cond(s2)
            if (access_path(ce) or '').endswith(V.handler_choked(F)) and g.bool_edges(s2) and sends and pushes:
                tt, ff = g.bool_edges(s2)
                if all(bb in g.only_via_edge((s2, tt)) for bb, _ in pushes) and all(bb in g.only_via_edge((s2, ff)) for bb, _ in sends):
                    sel = True
                    rec.site(g, s2, 'choked -> buffer, unchoked -> send')
    ok, bad = C.must_pass(f, own_via + covered_calls, C.ok_exit_blocks(f), start=tgt)
    rec.need(total_s > 0 and total_p > 0 and ok, 'have-dropped', f, tgt,
             'a SendHave command can be handled without sending or buffering the announcement')
    rec.need(sel, 'have-selection', f, tgt, 'send-or-buffer is not selected by whether the peer chokes us')


@TABLE.rule('4', 'K2+K1', 'deferred buffer is FIFO: only push/iter/is_empty/clear; clear only after the flush loop sent everything; flush on unchoke', floor=4)
def r4(cx, rec):
    F = cx.F
    uses = {}
    for f in F.user_fns():
        for bb in mirq.real_calls(f):
            ce = f.expr_call(bb)
            if ce[2] and (access_path(ce[2][0]) or '') == deferred_buffer(F):
                if ce[4].get('name') == 'into_iter' and ce[2][0][0] == 'call' and ce[2][0][4].get('name') == 'iter':
                    continue
                uses.setdefault(ce[4].get('name'), []).append((f, bb))
    rec.site('peer_handler', None, 'methods applied to the deferred buffer: %s' % sorted(uses))
    extra = set(uses) - {'push', 'iter', 'is_empty', 'clear', 'len'}
    rec.need(not extra, 'buffer-method/' + ','.join(sorted(extra)), 'peer_handler', None,
             'the deferred buffer is also manipulated with %s (order or content may change)' % sorted(extra))
    rec.need({'push', 'iter', 'clear'} <= set(uses), 'buffer-incomplete', 'peer_handler', None, 'buffer is never pushed/iterated/cleared: %s' % sorted(uses))
    for f, cb in uses.get('clear', []):
        its = [bb for g, bb in uses.get('iter', []) if g.path == f.path]
        nexts = [bb for bb in mirq.real_calls(f) if (f.blocks[bb]['t'].get('callee') or '') == 'std::iter::Iterator::next']
        flush = [bb for bb in mirq.real_calls(f) if 'send_frame' in (f.blocks[bb]['t'].get('callee') or '')]
        okf = False
        for nb in nexts:
            oe = f.outcome_edges(nb)
            none_t = [t for s, t in oe.get('none', [])]
            some_t = [t for s, t in oe.get('some', [])]
            if none_t and some_t and any(cb in f.reach_from(t, cut_blocks=[nb]) for t in none_t) and \
                    not any(cb in f.reach_from(t, cut_blocks=[nb]) for t in some_t) and any(fb in f.reach_from(t, cut_blocks=[nb]) for t in some_t for fb in flush):
                # clear only via the exhausted edge; each element is sent
                ok, bad = C.must_pass(f, [nb], [cb])
                okf = ok
        rec.site(f, cb, 'clear() only after the flush loop is exhausted: %s' % okf)
        rec.need(okf and bool(its), 'clear-before-flush', f, cb, 'the deferred announcements can be cleared without all of them having been sent')
        for fb in flush:
            a = show(f.expr_call(fb)[2][1])
            rec.need('next(' in a, 'flush-element', f, fb, 'flush sends %s' % a[:60])
            ok, why = C.error_propagates(f, fb)
            rec.need(ok, 'flush-error-ignored', f, fb, 'send error during flush ignored: ' + why)
        # it runs on unchoke: the flushing code, or the only function that calls it, records choked = false first and is
        # the handler of the Unchoke arm
        def unchoke_stores(g):
            return [bi for bi, si, s in g.stores() if (access_path(g.expr_place(s['lhs'])) or '').endswith(V.handler_choked(F))
                    and const_of(g.expr_rvalue(s['rv'])) and const_of(g.expr_rvalue(s['rv']))[0] == 0]
        chain = [(f, cb)]
        cs = C.callers(F, F.owner_fn(f).path)
        if len({F.owner_fn(g).path for g, gb in cs}) == 1 and not unchoke_stores(f):
            chain += [(g, gb) for g, gb in cs]
        tied = False
        for g, at in chain:
            st = unchoke_stores(g)
            if st and all(at in g.reach_from(s) for s in st):
                tied = True
                rec.site(g, st[0], 'choked := false before the flush')
        rec.need(tied, 'flush-not-on-unchoke', f, cb, 'the flush is not tied to the peer unchoking us')
        D, sbs = C.frame_dispatch(F)
        disp = max(sbs, key=lambda s: len(D.cond(s)[1]))
        tgt, region = C.arm_region(D, disp, 'Unchoke')
        called = [t for b, t in C.local_calls(F, D) if b in region or b == tgt]
        rec.need(any(F.owner_fn(g).path in called for g, at in chain), 'flush-not-in-unchoke-arm', f, cb, 'the flushing function is not the Unchoke handler')
    # choked := true only in the Choke arm handler, so buffering matches the peer's state
    for f in F.user_fns():
        for bi, si, s in f.stores():
            if (access_path(f.expr_place(s['lhs'])) or '').endswith(V.handler_choked(F)):
                rec.site(f, bi, 'peer_state.choked := %s' % show(f.expr_rvalue(s['rv'])))


@TABLE.rule('5', 'K2', 'Have frames are built only in the SendHave arm', floor=2)
def r5(cx, rec):
    F = cx.F
    hn = C07.impl_method(F, dict(C07.messages(F))['Have'], 'new')
    f0, sb = broad_dispatch(F)
    scopes = C.arm_scopes(F, f0, sb, 'SendHave')
    for f, bb in C.callers(F, hn.path):
        rec.site(f, bb, 'Have::new')
        rec.need(any(f.path == sc.fn.path and bb in sc.region for sc in scopes), 'have-built-elsewhere/' + F.owner_fn(f).path, f, bb,
                 'a Have message is built outside the SendHave arm')


@TABLE.rule('6', 'K3', 'select! branch on the broadcast receiver must not discard RecvError (Lagged) silently', floor=1)
def r6(cx, rec):
    F = cx.F
    found = False
    for f in F.user_fns():
        if not f.path.startswith('peer_handler::'):
            continue
        for sel in mirq.select_info(f):
            for k, arm in sel['arms'].items():
                fut = arm['future']
                if fut and fut[0] == 'call' and fut[1].endswith('broadcast::Receiver::<T>::recv'):
                    found = True
                    rec.site(f, arm['target'], 'broadcast recv arm, refutable pattern: %s' % bool(arm['refutable']))
                    if arm['refutable']:
                        rec.violation('broadcast-lagged-discarded', f, arm['target'],
                                      'the select! branch binds broadcast::Receiver::recv() with a refutable pattern (Ok(cmd)): RecvError::Lagged '
                                      '(more than 32 commands pending for this receiver) is discarded silently and the skipped SendHave '
                                      'announcements are never delivered on this connection')
    rec.need(found, 'no-broadcast-arm', 'peer_handler', None, 'peer loop has no broadcast branch')


@TABLE.rule('2c', 'K1', 'what is reported done is what the manager assigned: a new assignment always replaces the assembly state, and an abandoned '
            'download leaves none behind (shared with C10/C01) -- otherwise PieceDone, which carries no index, marks and advertises a piece '
            'that was never verified', floor=2)
def r2c(cx, rec):
    from rules import C10
    C10.fresh_assignment(cx, rec)
    C10.cancel_clears_state(cx, rec)


@TABLE.rule('1b', 'K6', 'the bitfield message places piece i at bit (0x80 >> (i mod 8)) of byte i/8: what is advertised on the wire is what the '
            'status vector says (shared with C07)', floor=6)
def r1b(cx, rec):
    from rules import C07
    C07.r_bitfield(cx, rec)
