"""C14 -- upload slots are bounded and follow the choking policy.

Decides: (1) the decision table of the rotation loop, extracted by enumerating every feasible
path of the loop body: a peer ends the iteration unchoked only if count < MAX_UNCHOKED and it is
interested, and then count grows by exactly one; an unchoked peer that lost interest or does not
fit is choked; (2) MAX_UNCHOKED <= 10, MAX_OPTIMISTIC <= 1, at most one new optimistic unchoke,
taken from choked interested peers; (3) between rotations the bitfield-time unchoke is bounded:
the counter it consults counts every regular unchoked peer and the unchoke needs
counter < MAX_UNCHOKED; (4) every change of am_choked is put into the broadcast map with the same
value (and the bitfield-time unchoke is reported in its reply); nothing else writes am_choked;
(5) the connection task maps map entry true/false/absent to Choke/Unchoke/nothing for its own
address; (6) rates are scanned in descending order; seeding ranks by download rate, leeching by
upload rate."""
import re
import mirq
from mirq import show, access_path, AnchorMissing, const_of, walk
from rulekit import Table
from rules import common as C
from rules import vocab as V

TABLE = Table('C14')
NOT_DECIDED = ('rate measurements; agreement "at every moment" across tasks (message latency); optimality '
               'beyond the slot guard and the scan order.')


def rotation_fn(F):
    fs = C.fns_constructing(F, r'^commands::BroadCmd$', 'SendOwnState')
    return C.one(fs, 'function building BroadCmd::SendOwnState')


def loops(f):
    """[(next_call_bb, body_start)] for `for` loops in f"""
    out = []
    for bb in mirq.real_calls(f):
        if (f.blocks[bb]['t'].get('callee') or '') == 'std::iter::Iterator::next':
            for sb, t in f.outcome_edges(bb).get('some', []):
                out.append((bb, t))
    return out


def flag_field(p):
    return p.split('.')[-1] if p else None


def counter_name(atoms):
    """name of the local compared with MAX_UNCHOKED on this path (`count < MAX_UNCHOKED`)"""
    for k in atoms:
        m = re.match(r'^(?:Lt|Ge)\(([A-Za-z_][A-Za-z0-9_]*), [^)]*MAX_UNCHOKED\)$', k)
        if m:
            return m.group(1)
    return None


def bitfield_handler(F):
    """the Peer method that answers a bitfield (builds BitfieldCmd::SendState)"""
    return C.one([f for f in C.fns_constructing(F, r'^commands::BitfieldCmd$', 'SendState') if f.self_ty == 'peer::Peer'],
                 'Peer method building BitfieldCmd::SendState')


def AM(F):
    return V.peer_am_choked(F)


def INT(F):
    return V.peer_interested(F)


def OPT(F):
    return V.peer_optimistic(F)


@TABLE.rule('1', 'K7', 'decision table of the rotation loop: unchoked at the end of an iteration => count < MAX_UNCHOKED and '
            'interested and count += 1; unchoked peers that lost interest or do not fit are choked', floor=10)
def r1(cx, rec):
    F = cx.F
    R = rotation_fn(F)
    main = None
    for nb, start in loops(R):
        paths = [p for p in mirq.enumerate_paths(R, start, [nb]) if p[-1] == nb]
        facts = [mirq.path_facts(R, p) for p in paths]
        facts = [x for x in facts if x is not None]
        if any(any('MAX_UNCHOKED' in k for k in x['atoms']) for x in facts):
            main = (nb, start, facts)
    if main is None:
        raise AnchorMissing('no loop in %s compares a counter with MAX_UNCHOKED' % R.path)
    nb, start, facts = main
    ok_paths = [x for x in facts if not (set(x['blocks']) & set(C.err_exit_blocks(R)))]
    for x in ok_paths:
        at = x['atoms']
        lt = [v for k, v in at.items() if 'MAX_UNCHOKED' in k and k.startswith('Lt(')]
        ge = [not v for k, v in at.items() if 'MAX_UNCHOKED' in k and k.startswith('Ge(')]
        fits = (lt + ge)[0] if (lt + ge) else None
        a0 = [v for k, v in at.items() if flag_field(k) == AM(F)]
        intr = [v for k, v in at.items() if flag_field(k) == INT(F)]
        a0 = a0[0] if a0 else None
        intr = intr[0] if intr else None
        st = [(p, v, bb) for p, v, bb in x['stores'] if flag_field(p) == AM(F)]
        final = a0
        if st:
            c = const_of(st[-1][1])
            final = bool(c[0]) if c else None
        cname = counter_name(at)
        incs = [v for p, v, bb in x['stores'] if cname and p == cname]
        inc1 = 0
        for v in incs:
            y = v
            while y[0] == 'field' and y[2] == '0':
                y = y[1]
            if y[0] == 'binop' and y[1].startswith('Add') and const_of(y[3]) and const_of(y[3])[0] == 1:
                inc1 += 1
            else:
                inc1 += 99
        desc = 'fits=%s am_choked=%s interested=%s -> am_choked=%s count+=%d' % (fits, a0, intr, final, inc1)
        last = x['blocks'][-2] if len(x['blocks']) > 1 else x['blocks'][0]
        rec.site(R, st[-1][2] if st else last, desc)
        key = 'fits=%s,choked=%s,interested=%s' % (fits, a0, intr)
        if final is False:
            rec.need(fits is True and intr is True, 'slot-without-guard/' + key, R, st[-1][2] if st else last,
                     'a peer leaves the rotation unchoked although %s: %s' % ('the slot limit was reached' if fits is not True else 'it is not interested', desc))
            rec.need(inc1 == 1, 'slot-not-counted/' + key, R, last, 'an unchoked peer is not counted exactly once against MAX_UNCHOKED: ' + desc)
        if inc1 and final is not False:
            rec.need(False, 'count-without-slot/' + key, R, last, 'the slot counter grows for a peer that stays choked: ' + desc)
        if a0 is False and (intr is False or fits is False):
            rec.need(final is True, 'not-choked/' + key, R, last,
                     'an unchoked peer that %s is left unchoked: %s' % ('lost interest' if intr is False else 'does not fit the slot limit', desc))
        if final is None:
            rec.violation('undetermined/' + key, R, last, 'cannot determine the choke state at the end of the iteration: ' + desc)
    rec.need(len(ok_paths) >= 6, 'loop-too-simple', R, nb, 'rotation loop has only %d feasible paths' % len(ok_paths))
    # the counter starts at 0 before the loop
    cnames = {counter_name(x['atoms']) for x in ok_paths} - {None}
    zero = [bi for bi, si, s in R.assigns() if not s['lhs'].get('p') and R._localnames.get(s['lhs']['l']) in cnames
            and const_of(R.expr_rvalue(s['rv'])) and const_of(R.expr_rvalue(s['rv']))[0] == 0]
    rec.need(bool(zero) and all(nb in R.reach_from(z) and z not in R.reach_from(nb) for z in zero), 'count-init', R, None,
             'the slot counter is not reset to 0 before the loop')


@TABLE.rule('2', 'K11', 'MAX_UNCHOKED <= 10, MAX_OPTIMISTIC <= 1; at most one new optimistic unchoke, chosen among choked '
            'interested peers; the optimistic loop unchokes exactly those', floor=4)
def r2(cx, rec):
    F = cx.F
    mu, mo = F.const_val('constants::MAX_UNCHOKED'), F.const_val('constants::MAX_OPTIMISTIC')
    rec.site('constants::MAX_UNCHOKED', None, 'MAX_UNCHOKED=%s MAX_OPTIMISTIC=%s' % (mu, mo))
    rec.need(1 <= mu <= 10, 'max-unchoked', 'constants::MAX_UNCHOKED', None, 'MAX_UNCHOKED is %s (property: at most ten)' % mu)
    rec.need(mo <= 1, 'max-optimistic', 'constants::MAX_OPTIMISTIC', None, 'MAX_OPTIMISTIC is %s (property: at most one)' % mo)
    R = rotation_fn(F)
    # who supplies the optimistic list
    params = [v['n'] for v in R.raw['vars'] if 'arg' in v]
    for f, bb in C.callers(F, R.path):
        e = f.expr_call(bb)
        opt = e[2][params.index('new_optimistic')] if 'new_optimistic' in params else e[2][-1]
        alts = [opt]
        if opt[0] == 'var' and len(opt) > 2:
            alts = mirq.local_defs(f, opt[2])
        for a in alts:
            a = mirq.init_of(a)
            if a[0] == 'call' and a[1] in F.fns:
                G = F.body(a[1])
                # every returned vector has at most one element
                for bi, si, s in G.assigns():
                    pass
                rets = []
                for bi, b in enumerate(G.blocks):
                    t = b['t']
                    if t['k'] == 'call' and t['dest']['l'] == 0 and not b.get('cleanup'):
                        rets.append((bi, G.expr_call(bi)))
                    for s in b['s']:
                        if s['k'] == 'assign' and s['lhs']['l'] == 0 and not s['lhs'].get('p') and not b.get('cleanup'):
                            rets.append((bi, G.expr_rvalue(s['rv'])))
                for bi, r in rets:
                    n = None
                    if r[0] == 'call' and r[1].endswith('Vec::<T>::new'):
                        n = 0
                    elif r[0] == 'call' and r[4].get('name') in ('into_vec', 'box_assume_init_into_vec_unsafe'):
                        arr = [x for x in walk(r) if x[0] == 'agg' and x[1] == 'array']
                        if not arr:
                            # vec![a, ..] : the array is stored into the freshly allocated box
                            arr = [G.expr_rvalue(s2['rv']) for b2, i2, s2 in G.stores()
                                   if s2['rv']['k'] == 'agg' and s2['rv'].get('ak') == 'array']
                        n = len(arr[0][4]) if len(arr) == 1 else None
                    rec.site(G, bi, 'optimistic list of %s element(s)' % n)
                    rec.need(n is not None and n <= 1, 'optimistic-too-many', G, bi, 'more than one optimistic unchoke can be selected: %s' % show(r)[:100])
                # chosen among am_choked && interested
                flt = [x for b2 in mirq.real_calls(G) for x in [G.expr_call(b2)] if x[4].get('name') == 'filter']
                okf = False
                for x in flt:
                    clo = [y for y in walk(x) if y[0] == 'closure']
                    if clo:
                        cf = F.fn(clo[0][1])
                        ps = mirq.enumerate_paths(cf, 0, cf.return_blocks())
                        true_paths = []
                        for p in ps:
                            pf = mirq.path_facts(cf, p)
                            if pf is None:
                                continue
                            # return value along the path
                            val = None
                            for b3 in p:
                                for s in cf.blocks[b3]['s']:
                                    if s['k'] == 'assign' and s['lhs']['l'] == 0:
                                        val = cf.expr_rvalue(s['rv'])
                            if val is not None and not (const_of(val) and const_of(val)[0] == 0):
                                need = dict(pf['atoms'])
                                if access_path(val):
                                    need[show(val)] = True
                                true_paths.append(need)
                        okf = bool(true_paths) and all(
                            any(flag_field(k) == AM(F) and v is True for k, v in tp.items()) and
                            any(flag_field(k) == INT(F) and v is True for k, v in tp.items()) for tp in true_paths)
                        rec.site(cf, None, 'optimistic candidates: %s' % true_paths)
                rec.need(okf, 'optimistic-candidates', G, None, 'optimistic unchoke is not restricted to choked, interested peers')
            elif a[0] == 'call' and a[1].endswith('Vec::<T>::new'):
                rec.site(f, bb, 'no optimistic unchoke this round')
            else:
                rec.violation('optimistic-source', f, bb, 'optimistic list comes from %s' % show(a)[:100])


def closure_truth(F, cf):
    """[(atoms, returns_true)] per feasible path of a bool closure"""
    out = []
    for p in mirq.enumerate_paths(cf, 0, cf.return_blocks()):
        pf = mirq.path_facts(cf, p)
        if pf is None:
            continue
        val = mirq.value_on_path(cf, p, 0)
        if val[0] == 'tmp':
            val = None
        atoms = mirq.canon_atoms(pf['atoms'])
        if val is None:
            continue
        c = const_of(val)
        if c is not None and val[0] == 'const':
            out.append((atoms, bool(c[0])))
        else:
            # returns the value of a further test: split
            e = val
            neg = False
            while True:
                if e[0] == 'unop' and e[1] == 'Not':
                    neg = not neg
                    e = e[2]
                    continue
                if e[0] == 'binop' and e[1] in ('Eq', 'Ne') and e[3][0] == 'const' and e[3][3] == 'bool':
                    if (e[1] == 'Eq') != bool(e[3][1]):
                        neg = not neg
                    e = e[2]
                    continue
                break
            if e[0] == 'const' and const_of(e) is not None:
                out.append((atoms, bool(const_of(e)[0]) != neg))
                continue
            k = show(e)
            a1 = dict(atoms)
            a1[k] = not neg
            a2 = dict(atoms)
            a2[k] = neg
            out.append((mirq.canon_atoms(a1), True))
            out.append((mirq.canon_atoms(a2), False))
    return out


@TABLE.rule('3', 'K7', 'between rotations: the bitfield-time unchoke needs counter < MAX_UNCHOKED and the counter counts every '
            'regular (non-optimistic) unchoked peer', floor=3)
def r3(cx, rec):
    F = cx.F
    # the bitfield-time unchoke: a store am_choked = false outside the rotation
    R = rotation_fn(F)
    sites = []
    for f in F.user_fns():
        if f.path == R.path:
            continue
        for bi, si, s in f.stores():
            if flag_field(access_path(f.expr_place(s['lhs']))) == AM(F):
                c = const_of(f.expr_rvalue(s['rv']))
                if c and c[0] == 0:
                    sites.append((f, bi))
    rec.need(len(sites) <= 1, 'extra-unchoke-site', R, None, 'peers are unchoked in %d places outside the rotation' % len(sites))
    for f, bi in sites:
        pths = [p for p in mirq.enumerate_paths(f, 0, [bi]) if p[-1] == bi]
        okall = bool(pths)
        cparam = None
        for p in pths:
            pf = mirq.path_facts(f, p)
            if pf is None:
                continue
            lim = [(k, v) for k, v in pf['atoms'].items() if 'MAX_UNCHOKED' in k]
            good = any(k.startswith('Lt(') and v is True for k, v in lim) or any(k.startswith('Ge(') and v is False for k, v in lim)
            for k, v in lim:
                m = re.match(r'(Lt|Ge)\((\w+), ', k)
                if m:
                    cparam = m.group(2)
            okall = okall and good
        rec.site(f, bi, 'unchoke on bitfield guarded by %s < MAX_UNCHOKED: %s' % (cparam, okall))
        rec.need(okall, 'bitfield-unchoke-unbounded', f, bi, 'a peer is unchoked outside the rotation without `count < MAX_UNCHOKED`')
        # what the caller passes as that counter
        params = [v['n'] for v in f.raw['vars'] if 'arg' in v]
        for g, gb in C.callers(F, f.path):
            e = g.expr_call(gb)
            if cparam in params:
                arg = e[2][params.index(cparam)]
                arg = mirq.init_of(arg)
                rec.site(g, gb, 'counter argument: %s' % show(arg)[:80])
                if arg[0] == 'call' and arg[1] in F.fns:
                    cnt = F.fn(arg[1])
                    okc = False
                    for b2 in mirq.real_calls(cnt):
                        x = cnt.expr_call(b2)
                        if x[4].get('name') == 'filter':
                            clo = [y for y in walk(x) if y[0] in ('closure', 'fn') and F.fns.get(y[1]) is not None]
                            src = access_path(x[2][0]) or ''
                            if clo and 'peers' in src:
                                tt = closure_truth(F, F.fn(clo[0][1]))
                                # requirement: (!am_choked && !optimistic_unchoke) => counted
                                viol = []
                                for atoms, res in tt:
                                    ac = [v for k, v in atoms.items() if flag_field(k) == AM(F)]
                                    op = [v for k, v in atoms.items() if flag_field(k) == OPT(F)]
                                    regular_unchoked_possible = (not ac or ac[0] is False) and (not op or op[0] is False)
                                    if regular_unchoked_possible and res is False:
                                        viol.append(atoms)
                                okc = not viol and bool(tt)
                                rec.site(F.fn(clo[0][1]), None, 'counting predicate truth table: %s' % [(dict((flag_field(k), v) for k, v in a.items()), r) for a, r in tt])
                                rec.need(okc, 'regular-unchoked-not-counted', F.fn(clo[0][1]), None,
                                         'a regularly unchoked peer (am_choked == false, optimistic_unchoke == false) is not counted: '
                                         'every peer that sends a bitfield before the next rotation is unchoked, without bound')
                    rec.need(any(cnt.expr_call(b2)[4].get('name') == 'count' for b2 in mirq.real_calls(cnt)), 'counter-not-count', cnt, None, 'counter is not a count() over peers')
                else:
                    rec.violation('counter-source', g, gb, 'the slot counter passed on bitfield is %s' % show(arg)[:100])


@TABLE.rule('4', 'K8', 'every change of am_choked is published with the same value; nothing else writes am_choked', floor=5)
def r4(cx, rec):
    F = cx.F
    R = rotation_fn(F)
    # K2 who writes am_choked
    for f in F.user_fns():
        for bi, si, s in f.stores():
            if flag_field(access_path(f.expr_place(s['lhs']))) == AM(F):
                owner = F.owner_fn(f).path
                rec.site(f, bi, 'store am_choked = %s' % show(f.expr_rvalue(s['rv']))[:20])
                rec.need(owner == R.path or owner == bitfield_handler(F).path, 'am-choked-writer/' + owner, f, bi,
                         'am_choked is changed in %s, whose changes are not published to the connection task' % owner)
        for bi, si, e in mirq.agg_sites(f, r'^peer::Peer$'):
            init = dict(e[4]).get(AM(F))
            rec.need(init is not None and const_of(init) and const_of(init)[0] == 1, 'am-choked-init', f, bi, 'a new peer does not start choked')
    # pairing inside the rotation: along every path, store(v) is followed by insert(map, addr, v)
    for nb, start in loops(R):
        for p in mirq.enumerate_paths(R, start, [nb]):
            pf = mirq.path_facts(R, p)
            if pf is None or set(p) & set(C.err_exit_blocks(R)) or p[-1] != nb:
                continue
            for sp, v, sbb in pf['stores']:
                if flag_field(sp) != AM(F):
                    continue
                c = const_of(v)
                later = [ce for cb, ce in pf['calls'] if p.index(cb) > p.index(sbb) and ce[4].get('name') == 'insert' and 'map' in (access_path(ce[2][0]) or '')]
                okp = any(const_of(ce[2][2]) and c and const_of(ce[2][2])[0] == c[0] for ce in later)
                rec.need(okp, 'state-not-published/%s' % ('choke' if c and c[0] else 'unchoke'), R, sbb,
                         'am_choked is set to %s without inserting (addr, %s) into the broadcast map on the same path' % (show(v), show(v)))
    # whoever runs the rotation broadcasts its result on every successful path
    for g, gb in C.callers(F, R.path):
        sends = [bb for bb in mirq.real_calls(g) if g.expr_call(bb)[4].get('name') == 'send' and
                 any(x[0] == 'call' and x[3] == gb and x[1] == R.path for a in g.expr_call(bb)[2][1:] for x in walk(a, inl=False))]
        starts = [t for s2, t in g.outcome_edges(gb).get('ok', [])] or [gb]
        okb = bool(sends) and all(C.must_pass(g, sends, C.ok_exit_blocks(g), start=st)[0] for st in starts)
        rec.site(g, gb, 'rotation result is broadcast on every successful path: %s' % okb)
        rec.need(okb, 'state-not-broadcast', g, gb,
                 'the command built by the rotation (the peers whose choke state changed) is not broadcast on every successful path: '
                 'a peer is choked or unchoked in the manager without being told')
    # the map is what gets broadcast
    for bi, si, e in mirq.agg_sites(R, r'^commands::BroadCmd$', 'SendOwnState'):
        m = dict(e[4]).get(V.own_state_map(F))
        rec.site(R, bi, 'broadcast map: %s' % show(m)[:40])
        rec.need(m is not None and m[0] in ('var', 'mvar'), 'map-not-broadcast', R, bi, 'the command does not carry the map built in the loop')
    # bitfield-time unchoke is reported in the reply
    hb = bitfield_handler(F)
    for bi, si, e in mirq.agg_sites(hb, r'^commands::BitfieldCmd$', 'SendState'):
        w = dict(e[4]).get(V.reply_unchoke_flag(F))
        for b2, s2, s in hb.stores():
            if flag_field(access_path(hb.expr_place(s['lhs']))) == AM(F):
                # store is on the true edge of the same flag
                ok = False
                for sb in hb.switches():
                    ce, ts, o = hb.cond(sb)
                    if access_path(ce) == access_path(w) and hb.bool_edges(sb):
                        tt, ff = hb.bool_edges(sb)
                        if b2 in hb.only_via_edge((sb, tt)) and b2 not in hb.reach_from(ff, cut_blocks=[sb]):
                            ok = True
                rec.site(hb, b2, 'unchoke iff reply flag %s' % show(w))
                rec.need(ok, 'bitfield-unchoke-not-reported', hb, b2, 'am_choked is cleared on a path where the reply does not tell the connection task to send Unchoke')


@TABLE.rule('5', 'K6', 'connection task: own map entry true -> Choke, false -> Unchoke, absent -> nothing; with_am_unchoked -> Unchoke; '
            'map key and task address are the same string', floor=5)
def r5(cx, rec):
    F = cx.F
    H = None
    for f, sb in C.fns_switching_on(F, r'^commands::BroadCmd$', min_arms=2):
        if f.path.startswith('peer_handler::'):
            H = (f, sb)
    if H is None:
        raise AnchorMissing('peer task does not dispatch on BroadCmd')
    f, sb = H
    tgt, region = C.arm_region(f, sb, 'SendOwnState')
    # lookups of the map with the own address
    gets = [bb for bb in mirq.real_calls(f) if bb in region and f.blocks[bb]['t'].get('name') == 'get']
    rec.need(len(gets) == 1, 'own-state-lookup', f, tgt, 'SendOwnState arm does not look up exactly one map entry')
    for gb in gets:
        e = f.expr_call(gb)
        key = access_path(e[2][1])
        rec.site(f, gb, 'map.get(%s)' % key)
        rec.need(key == V.conn_addr_path(F), 'own-state-key', f, gb, 'map is looked up with %s, not the connection\'s own address' % key)
    sends = {}
    for p in mirq.enumerate_paths(f, tgt, f.return_blocks() + C.err_exit_blocks(f)):
        pf = mirq.path_facts(f, p)
        if pf is None:
            continue
        st = None
        for k, v in pf['atoms'].items():
            if k.startswith('discr(') and 'get(' in k and v in ('Some', 'None'):
                st = v if v == 'None' else st
                if v == 'Some':
                    st = 'Some'
        bval = [v for k, v in pf['atoms'].items() if '<Some>.0' in k and 'get(' in k and isinstance(v, bool)]
        label = 'None' if st == 'None' else ('Some(%s)' % (bval[0] if bval else '?'))
        msgs = []
        for cb, ce in pf['calls']:
            if 'send_msg' in ce[1]:
                ga = f.blocks[cb]['t'].get('gargs') or []
                msgs.append(ga[0].split('::')[-1] if ga else '?')
        sends.setdefault(label, set()).add(tuple(msgs))
    rec.site(f, tgt, 'SendOwnState mapping: %s' % {k: sorted(v) for k, v in sends.items()})
    want = {'None': {()}, 'Some(True)': {('Choke',)}, 'Some(False)': {('Unchoke',)}}
    for k, v in want.items():
        rec.need(sends.get(k) == v, 'own-state-mapping/' + k, f, tgt, 'map entry %s leads to messages %s (expected %s)' % (k, sorted(sends.get(k, [])), sorted(v)))
    # SendState{with_am_unchoked}
    ok = False
    for g in F.user_fns():
        for sb2 in g.switches():
            ce, ts, o = g.cond(sb2)
            if (access_path(ce) or '').split('.')[-1] == V.reply_unchoke_flag(F) and g.bool_edges(sb2):
                tt, ff = g.bool_edges(sb2)
                t_unch = [bb for bb in mirq.real_calls(g) if 'send_msg' in (g.blocks[bb]['t'].get('callee') or '') and (g.blocks[bb]['t'].get('gargs') or [''])[0].endswith('Unchoke')]
                if any(bb in g.only_via_edge((sb2, tt)) for bb in t_unch) and not any(bb in g.reach_from(ff, cut_blocks=[sb2]) and bb in g.only_via_edge((sb2, ff)) for bb in t_unch):
                    ok = True
                    rec.site(g, sb2, 'with_am_unchoked == true -> Unchoke')
    rec.need(ok, 'bitfield-reply-mapping', f, None, 'the reply flag with_am_unchoked is not mapped to sending Unchoke')
    # same string for map key and task address at the spawn sites
    ctor = [t for t in {tgt for g in F.user_fns() for bb, tgt in C.local_calls(F, g)} if t.endswith('PeerHandler::new')]
    sites = C.ctor_sites(F, ctor[0]) if ctor else []
    for g in F.user_fns():
        ph = [(bb, a) for g2, bb, a in sites if g2 is g]
        ins = [bb for bb in mirq.real_calls(g) if g.blocks[bb]['t'].get('name') == 'insert' and (access_path(g.expr_call(bb)[2][0]) or '').split('.')[-1] == V.peers_map(F)]
        for pb, pargs in ph:
            a = show(mirq.strip(pargs[0]))
            ks = [show(mirq.strip(g.expr_call(ib)[2][1])) for ib in ins]
            rec.site(g, pb, 'task address %s, map key %s' % (a, ks))
            rec.need(bool(ks) and all(k == a for k in ks), 'addr-key-mismatch/' + F.owner_fn(g).path, g, pb, 'peer map key %s differs from the task address %s' % (ks, a))


@TABLE.rule('6', 'orientation', 'rates are scanned in descending order; seeding ranks by download rate, leeching by upload rate', floor=2)
def r6(cx, rec):
    F = cx.F
    R = rotation_fn(F)
    sorts = [bb for bb in mirq.real_calls(R) if (R.blocks[bb]['t'].get('name') or '').startswith('sort')]
    rec.need(len(sorts) == 1, 'no-sort', R, None, 'rates are not sorted exactly once')
    for sbb in sorts:
        e = R.expr_call(sbb)
        name = e[4].get('name')
        clo = [y for y in e[2][1:] if y[0] == 'closure']
        desc = None
        if clo and name in ('sort_by', 'sort_unstable_by'):
            asc = C.cmp_orientation(F, clo[0][1], '1')
            desc = None if asc is None else (not asc)
            rec.site(F.fn(clo[0][1]), None, 'comparator descending in the rate: %s' % desc)
        elif clo and name in ('sort_by_key', 'sort_unstable_by_key'):
            cf = F.fn(clo[0][1])
            desc = any(y[0] == 'agg' and (y[2] or '').endswith('Reverse') for b2, s2, s in cf.assigns() for y in walk(cf.expr_rvalue(s['rv'])))
            rec.site(cf, None, 'key function, Reverse=%s' % desc)
        rec.need(desc is True, 'sort-orientation', R, sbb, 'the rate vector is not sorted in descending order before slots are handed out')
        # the loop iterates the sorted vector without reversing
        rev = [bb for bb in mirq.real_calls(R) if R.blocks[bb]['t'].get('name') in ('rev', 'reverse')]
        rec.need(not rev, 'scan-reversed', R, None, 'the sorted rates are scanned in reverse')
    # provenance of the rate: seeder -> download_rate, leecher -> uploaded_rate
    for f, bb in C.callers(F, R.path):
        found = {}
        # pair builders: closures of the caller, or named functions it refers to
        cands = list(F.children(F.owner_fn(f).path)) + [g.path for g in F.user_fns() if g.kind == 'Fn' and g.locals[0]['ty'].startswith('(std::string::String, u32)')]
        for c in cands:
            cf = F.fns[c]
            for bi, si, s in cf.assigns():
                if s['lhs']['l'] == 0 and s['rv']['k'] == 'agg' and s['rv'].get('ak') == 'tuple':
                    x = cf.expr_rvalue(s['rv'])
                    r = show(x[4][1][1])
                    if 'download_rate' in r:
                        found[c] = 'download'
                    elif 'uploaded_rate' in r or 'upload_rate' in r:
                        found[c] = 'upload'
        # which closure is selected under is_seeder == true
        sel = {}
        for sb in f.switches():
            ce, ts, o = f.cond(sb)
            x = C.through_helper(ce)
            if x[0] == 'call' and x[4].get('name') == 'all' and f.bool_edges(sb):
                tt, ff = f.bool_edges(sb)
                for edge, lab in ((tt, 'seeding'), (ff, 'leeching')):
                    reg = f.only_via_edge((sb, edge)) | {edge}
                    for bi, si, s in f.assigns():
                        if bi in reg:
                            for y in walk(f.expr_rvalue(s['rv'])):
                                if y[0] in ('closure', 'fn') and y[1] in found:
                                    sel[lab] = found[y[1]]
        rec.site(f, bb, 'rate source: %s' % sel)
        rec.need(sel.get('seeding') == 'download' and sel.get('leeching') == 'upload', 'rate-source', f, bb,
                 'rates used for ranking are %s (expected seeding: download rate, leeching: upload rate)' % sel)


@TABLE.rule('7', 'K7', 'electing a new optimistic peer retires the previous one whatever its state: within the rotation loop, whether '
            'optimistic_unchoke is reset does not depend on the peer\'s own flags (a flag left on a peer that later gets a '
            'regular slot hides it from the between-rotations counter)', floor=1)
def r7(cx, rec):
    F = cx.F
    R = rotation_fn(F)
    flags = {AM(F), INT(F), OPT(F)}
    n = 0
    for nb, start in loops(R):
        paths = [p for p in mirq.enumerate_paths(R, start, [nb]) if p[-1] == nb]
        facts = [x for x in (mirq.path_facts(R, p) for p in paths) if x is not None]
        facts = [x for x in facts if not (set(x['blocks']) & set(C.err_exit_blocks(R)))]

        def resets(x):
            return [bb for p, v, bb in x['stores'] if flag_field(p) == OPT(F) and const_of(v) is not None and not const_of(v)[0]]
        with_reset = [x for x in facts if resets(x)]
        if not with_reset:
            continue
        n += 1
        rec.site(R, resets(with_reset[0])[0], 'loop at bb%d: %d of %d iteration paths reset the optimistic flag' % (nb, len(with_reset), len(facts)))

        def other(x):
            return {k: v for k, v in x['atoms'].items() if flag_field(k) not in flags}
        for x in facts:
            if resets(x):
                continue
            if any(flag_field(k) == OPT(F) and v is False for k, v in x['atoms'].items()):
                continue   # the flag is known to be clear already
            ox = other(x)
            for y in with_reset:
                oy = other(y)
                if all(ox[k] == oy[k] for k in ox if k in oy):
                    why = {k: v for k, v in x['atoms'].items() if flag_field(k) in flags}
                    rec.violation('optimistic-reset-conditional', R, x['blocks'][-1],
                                  'an iteration with %s keeps optimistic_unchoke although a new optimistic peer is elected under the same '
                                  'conditions: two peers can carry the flag, and the bitfield-time counter then under-counts the unchoked peers' % why)
                    break
            else:
                continue
            break
    rec.need(n >= 1, 'no-optimistic-reset', R, None, 'the rotation never clears optimistic_unchoke')
