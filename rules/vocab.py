"""Vocabulary: names of fields and functions resolved from the tree by *type* or by *role* (which arm of a dispatcher
writes them, what their constructor computes), so that a rule does not depend on what a private item happens to be called.
Every resolver fails closed (AnchorMissing) when the role has no unique bearer.  Types and enum variants (Frame::Have,
Status::Reserved, PeerCmd::RecvChoke, ...) are the fixed vocabulary the resolvers start from."""
import re
import mirq
from mirq import AnchorMissing, access_path, const_of, show, walk
from rules import common as C


def _memo(F, key, fn):
    d = F.__dict__.setdefault('_vocab', {})
    if key not in d:
        d[key] = fn()
    return d[key]


def field(F, adt, ty_re, what):
    """name of the only field of struct `adt` whose type matches ty_re"""
    def go():
        a = F.adts.get(adt)
        if not a:
            raise AnchorMissing('struct %s not found' % adt)
        hits = [fl['name'] for fl in a['variants'][0]['fields'] if re.search(ty_re, fl['ty'])]
        if len(hits) != 1:
            raise AnchorMissing('%s: struct %s has %d fields of type /%s/: %s' % (what, adt, len(hits), ty_re, hits))
        return hits[0]
    return _memo(F, ('field', adt, ty_re), go)


# ---- session / peer bookkeeping ---------------------------------------------------------------------------------

def status_vec(F):
    return field(F, 'session::Session', r'^std::vec::Vec<session::Status>$', 'status vector')


def peers_map(F):
    return field(F, 'session::Session', r'^std::collections::HashMap<std::string::String, peer::Peer>$', 'peer table')


def peer_record(F):
    """Peer field that records which piece the peer is fetching (Option<usize>)"""
    return field(F, 'peer::Peer', r'^std::option::Option<usize>$', 'record of the piece a peer is fetching')


def peer_bitmap(F):
    return field(F, 'peer::Peer', r'^std::vec::Vec<bool>$', 'pieces the peer advertises')


def is_status_seq(f, e):
    """expression e denotes a sequence of session::Status (the status vector or a parameter that receives it)"""
    e = mirq.strip(e) if hasattr(mirq, 'strip') else e
    p = access_path(e) or ''
    F = f.facts
    if p.split('.')[-1] == status_vec(F) or p.endswith('__' + status_vec(F)):
        return True
    root = p.split('.')[0]
    for n, l, t in C.params_of(f):
        if n == root and 'session::Status' in t:
            return True
    for v in f.raw['vars']:
        if v['n'] == root and 'place' in v and not v['place'].get('p') and 'session::Status' in f.locals[v['place']['l']]['ty']:
            return True
    return False


def status_elem(f, le):
    """(seq_expr, index_expr) when place expression le is an element of a Status sequence"""
    if le[0] == 'call' and le[4].get('name') in ('index_mut', 'index') and len(le[2]) == 2 and is_status_seq(f, le[2][0]):
        return le[2][0], le[2][1]
    return None


def _arm_handlers(F, variant):
    """bodies handling PeerCmd::<variant>: the manager's handler(s) called in that arm and the Peer methods they call"""
    pf, psbs = C.peer_cmd_dispatch(F)
    tgt, region = C.arm_region(pf, psbs[0], variant)
    region = set(region) | {tgt}
    out = []
    for b, t in C.local_calls(F, pf):
        if b in region:
            body = F.body(t)
            if body is not None:
                out.append(body)
                for b2, t2 in C.local_calls(F, body):
                    g = F.fns.get(t2)
                    if g is not None and g.self_ty == 'peer::Peer':
                        out.append(g)
    return out


def peer_flag(F, variant, value, what):
    """the bool field of Peer that the handling of PeerCmd::<variant> sets to `value` (and no other bool field of Peer)"""
    def go():
        bools = {fl['name'] for fl in F.adts['peer::Peer']['variants'][0]['fields'] if fl['ty'] == 'bool'}
        hits = set()
        for g in _arm_handlers(F, variant):
            if g.self_ty != 'peer::Peer':
                continue
            for bi, si, s in g.stores():
                p = access_path(g.expr_place(s['lhs'])) or ''
                c = const_of(g.expr_rvalue(s['rv']))
                if p.startswith('self.') and p[5:] in bools and c is not None and bool(c[0]) == value:
                    hits.add(p[5:])
        if len(hits) != 1:
            raise AnchorMissing('%s: handling of %s sets %s to %s' % (what, variant, sorted(hits), value))
        return list(hits)[0]
    return _memo(F, ('peer_flag', variant, value), go)


def peer_choked(F):
    """Peer.<flag> = the peer is choking us: set when RecvChoke is handled"""
    return peer_flag(F, 'RecvChoke', True, 'peer-is-choking-us flag')


def peer_interested(F):
    return peer_flag(F, 'RecvInterested', True, 'peer-is-interested flag')


# ---- choking policy -------------------------------------------------------------------------------------------------

def rotation_fn(F):
    return C.one(C.fns_constructing(F, r'^commands::BroadCmd$', 'SendOwnState'), 'function building BroadCmd::SendOwnState')


def peer_am_choked(F):
    """Peer flag "we choke this peer": the bool field of Peer whose every store in the rotation is followed, before any other
    crate-visible effect, by an insert of the same constant into the HashMap<String, bool> that is broadcast"""
    def go():
        R = rotation_fn(F)
        bools = {fl['name'] for fl in F.adts['peer::Peer']['variants'][0]['fields'] if fl['ty'] == 'bool'}
        by_field = {}
        for bi, si, s in R.stores():
            p = access_path(R.expr_place(s['lhs'])) or ''
            fld = p.split('.')[-1]
            c = const_of(R.expr_rvalue(s['rv']))
            if fld in bools and c is not None:
                # next real call reachable from the store
                paired = False
                seen = set()
                work = [bi]
                while work:
                    b = work.pop()
                    if b in seen:
                        continue
                    seen.add(b)
                    t = R.blocks[b]['t']
                    if t['k'] == 'call' and b in mirq.real_calls(R):
                        e = R.expr_call(b)
                        nm = e[4].get('name')
                        if nm == 'insert' and len(e[2]) == 3 and const_of(e[2][2]) and const_of(e[2][2])[0] == c[0]:
                            paired = True
                            continue
                        if nm in ('clone', 'to_string', 'to_owned', 'deref'):
                            work.extend(R.succs(b))
                            continue
                        paired = paired or False
                        continue
                    work.extend(x for x in R.succs(b) if not R.blocks[x].get('cleanup'))
                by_field.setdefault(fld, []).append(paired)
        # the field with the most paired stores (a missing pairing is the rule's business, not the resolver's)
        score = sorted(((sum(1 for p in ps if p), f) for f, ps in by_field.items()), reverse=True)
        if not score or score[0][0] == 0 or (len(score) > 1 and score[1][0] == score[0][0]):
            raise AnchorMissing('"we choke this peer" flag: stores paired with a broadcast-map insert: %s' % by_field)
        return score[0][1]
    return _memo(F, 'peer_am_choked', go)


def peer_optimistic(F):
    """Peer flag "this peer holds the optimistic slot": the other bool field of Peer the rotation writes"""
    def go():
        R = rotation_fn(F)
        bools = {fl['name'] for fl in F.adts['peer::Peer']['variants'][0]['fields'] if fl['ty'] == 'bool'}
        w = set()
        for bi, si, s in R.stores():
            fld = (access_path(R.expr_place(s['lhs'])) or '').split('.')[-1]
            if fld in bools:
                w.add(fld)
        w.discard(peer_am_choked(F))
        if len(w) != 1:
            raise AnchorMissing('optimistic-slot flag: rotation writes %s besides the choke flag' % sorted(w))
        return list(w)[0]
    return _memo(F, 'peer_optimistic', go)


def variant_field(F, adt, variant, ty_re, what):
    def go():
        for v in F.adts[adt]['variants']:
            if v['name'] == variant:
                hits = [fl['name'] for fl in v['fields'] if re.search(ty_re, fl['ty'])]
                if len(hits) == 1:
                    return hits[0]
                raise AnchorMissing('%s: %s::%s has %d fields of type /%s/' % (what, adt, variant, len(hits), ty_re))
        raise AnchorMissing('%s::%s not found' % (adt, variant))
    return _memo(F, ('vfield', adt, variant, ty_re), go)


def own_state_map(F):
    return variant_field(F, 'commands::BroadCmd', 'SendOwnState', r'HashMap<std::string::String, bool>', 'broadcast choke map')


def reply_unchoke_flag(F):
    """field of BitfieldCmd::SendState that makes the connection task send Unchoke when true (identified at the consumer)"""
    def go():
        names = [fl['name'] for v in F.adts['commands::BitfieldCmd']['variants'] if v['name'] == 'SendState' for fl in v['fields'] if fl['ty'] == 'bool']
        hits = set()
        for g in F.user_fns():
            for sb in g.switches():
                ce = g.cond(sb)[0]
                p = access_path(ce) or ''
                last = p.split('.')[-1]
                if last in names and g.bool_edges(sb):
                    tt, ff = g.bool_edges(sb)
                    un = [bb for bb in mirq.real_calls(g) if 'send_msg' in (g.blocks[bb]['t'].get('callee') or '') and
                          (g.blocks[bb]['t'].get('gargs') or [''])[0].endswith('Unchoke')]
                    if any(bb in g.only_via_edge((sb, tt)) for bb in un):
                        hits.add(last)
        if len(hits) != 1:
            raise AnchorMissing('reply flag that triggers Unchoke: %s' % sorted(hits))
        return list(hits)[0]
    return _memo(F, 'reply_unchoke_flag', go)


# ---- connection task (PeerHandler) ---------------------------------------------------------------------------------

PH = 'peer_handler::PeerHandler'


def rx_slot(F):
    """PeerHandler field holding the assembly state of the piece being downloaded"""
    return field(F, PH, r'^std::option::Option<peer_handler::PieceRx>$', 'download assembly slot')


def tx_slot(F):
    """PeerHandler field caching the piece loaded for upload"""
    return field(F, PH, r'^std::option::Option<peer_handler::PieceTx>$', 'upload cache slot')


def tx_buff(F):
    return field(F, 'peer_handler::PieceTx', r'^std::vec::Vec<u8>$', 'upload cache bytes')


def tx_index(F):
    return field(F, 'peer_handler::PieceTx', r'^usize$', 'upload cache piece index')


def handler_own_id(F):
    return field(F, PH, r'^\[u8; PEER_ID_SIZE\]$', 'own peer id of the connection task')


def handler_expected_id(F):
    return field(F, PH, r'^std::option::Option<\[u8; PEER_ID_SIZE\]>$', 'expected peer id')


def handler_info_hash(F):
    return field(F, PH, r'^\[u8; HASH_SIZE\]$', 'info-hash of the connection task')


def handler_pieces_num(F):
    return field(F, PH, r'^usize$', 'piece count of the connection task')


def session_own_id(F):
    return field(F, 'session::Session', r'^\[u8; PEER_ID_SIZE\]$', 'own peer id of the manager')


def session_candidates(F):
    return field(F, 'session::Session', r'^std::vec::Vec<\(std::string::String, \[u8; PEER_ID_SIZE\]\)>$', 'peer candidates')


def session_tracker(F):
    return field(F, 'session::Session', r'^session::Job<commands::TrackerCmd>$', 'tracker task handle')


def session_extractor(F):
    return field(F, 'session::Session', r'^session::Job<commands::ExtractorCmd>$', 'extractor task handle')


def reqdata_hash(F):
    return field(F, 'commands::ReqData', r'^\[u8; HASH_SIZE\]$', 'expected hash in the request data')


def handler_state_flag(F, variant, value, what):
    """'<state field>.<flag>' of PeerHandler: the bool of its State that the handler of Frame::<variant> sets to `value`"""
    def go():
        D, sbs = C.frame_dispatch(F)
        disp = max(sbs, key=lambda s: len(D.cond(s)[1]))
        tgt, region = C.arm_region(D, disp, variant)
        region = set(region) | {tgt}
        hits = set()
        for b, t in C.local_calls(F, D):
            if b in region:
                body = F.body(t)
                if body is None:
                    continue
                for bi, si, s in body.stores():
                    p = access_path(body.expr_place(s['lhs'])) or ''
                    c = const_of(body.expr_rvalue(s['rv']))
                    if p.startswith('self.') and p.count('.') == 2 and c is not None and body.expr_rvalue(s['rv'])[3:4] == ('bool',) and bool(c[0]) == value:
                        hits.add(p[5:])
        if len(hits) != 1:
            raise AnchorMissing('%s: handler of Frame::%s sets %s' % (what, variant, sorted(hits)))
        return list(hits)[0]
    return _memo(F, ('hflag', variant, value), go)


def handler_choked(F):
    """'peer_state.choked': the connection task's flag "the peer is choking us" """
    return handler_state_flag(F, 'Choke', True, 'connection-task flag: peer chokes us')


def conn_addr_path(F):
    """'self.<connection>.<addr>': the connection's own address string inside PeerHandler"""
    c = field(F, PH, r'^connection::Connection$', 'connection of the task')
    a = field(F, 'connection::Connection', r'^std::string::String$', 'address of a connection')
    return 'self.%s.%s' % (c, a)


# ---- metainfo -------------------------------------------------------------------------------------------------------

MI = 'metainfo::Metainfo'


def meta_parse(F):
    return C.one([f for f in F.user_fns() if mirq.agg_sites(f, r'^metainfo::Metainfo$')], 'function building Metainfo')


def keys_read(f):
    out = []
    for bb in mirq.real_calls(f):
        e = f.expr_call(bb)
        if e[4].get('name') == 'get' and len(e[2]) == 2:
            for x in walk(e[2][1], inl=False):
                if x[0] == 'bytes':
                    out.append(bytes(x[1]).decode('latin1'))
    return out


def meta_string_field(F, key):
    """the String field of Metainfo that the parser fills from dictionary key `key`"""
    def go():
        P = meta_parse(F)
        strings = [fl['name'] for fl in F.adts[MI]['variants'][0]['fields'] if fl['ty'] == 'std::string::String']
        hits = []
        for bi, si, e in mirq.agg_sites(P, r'^metainfo::Metainfo$'):
            fields = dict(e[4])
            for n in strings:
                x = mirq.init_of(fields.get(n, ('other', '')))
                x = mirq.peel_ok(x)
                if x[0] == 'call' and x[1] in F.fns and keys_read(F.fn(x[1]))[-1:] == [key]:
                    hits.append(n)
        if len(set(hits)) != 1:
            raise AnchorMissing('Metainfo string field read from key "%s": %s' % (key, hits))
        return hits[0]
    return _memo(F, ('meta_string', key), go)


def meta_announce(F):
    return meta_string_field(F, 'announce')


def meta_name(F):
    return meta_string_field(F, 'name')


def meta_piece_length(F):
    return field(F, MI, r'^u64$', 'piece length')


def meta_hashes(F):
    return field(F, MI, r'^std::vec::Vec<\[u8; HASH_SIZE\]>$', 'piece hashes')


def meta_files(F):
    return field(F, MI, r'^std::vec::Vec<metainfo::File>$', 'file list')


def meta_info_hash(F):
    return field(F, MI, r'^\[u8; HASH_SIZE\]$', 'info-hash')


def file_length(F):
    return field(F, 'metainfo::File', r'^u64$', 'file length')


def file_path(F):
    return field(F, 'metainfo::File', r'^std::string::String$', 'file path')


def mentions_field(e, adt, name):
    """expression e (helpers seen through) reads field `name` of struct `adt`"""
    return any(x[0] == 'field' and len(x) > 3 and x[3] == adt and x[2] == name for x in walk(e))


# ---- bencode codec functions by signature ------------------------------------------------------------------------------

def codec_fn(F, role):
    """decoder functions identified by what they take and return (names are free to change):
    values_vector (it, bool) -> Result<Vec<BValue>>; from_array (&[u8]) -> Result<Vec<BValue>>;
    parse_byte_str -> Result<(Vec<u8>, Vec<u8>)>; parse_int -> Result<(i64, Vec<u8>)>;
    parse_dict -> Result<HashMap<Vec<u8>, BValue>>; keys_from_list -> Result<Vec<Vec<u8>>>;
    extract_int (it, usize) -> Result<Vec<u8>> in the decoder module"""
    def go():
        def ret(f):
            return f.locals[0]['ty'].replace('std::result::Result<', '', 1)
        cands = [f for f in F.user_fns() if f.path.startswith('bcodec::bdecoder::') and f.kind in ('Fn', 'AssocFn')]
        sel = {
            'values_vector': lambda f: ret(f).startswith('std::vec::Vec<bcodec::bvalue::BValue>') and C.params_of(f, r'^bool$') and C.params_of(f, r'Enumerate<'),
            'from_array': lambda f: ret(f).startswith('std::vec::Vec<bcodec::bvalue::BValue>') and C.params_of(f, r'^&\[u8\]$') and not C.params_of(f, r'Enumerate<'),
            'parse_byte_str': lambda f: ret(f).startswith('(std::vec::Vec<u8>, std::vec::Vec<u8>)'),
            'parse_int': lambda f: ret(f).startswith('(i64, std::vec::Vec<u8>)'),
            'parse_dict': lambda f: ret(f).startswith('std::collections::HashMap<std::vec::Vec<u8>, bcodec::bvalue::BValue>'),
            'keys_from_list': lambda f: ret(f).startswith('std::vec::Vec<std::vec::Vec<u8>>'),
            'extract_int': lambda f: ret(f).startswith('std::vec::Vec<u8>,') and C.params_of(f, r'Enumerate<'),
        }[role]
        return C.one([f for f in cands if sel(f)], 'decoder function in the role of %s' % role)
    return _memo(F, ('codec_fn', role), go)
