"""Vocabulary: names of fields and functions resolved from the tree by *type* or by *role* (which arm of a dispatcher
writes them, what their constructor computes), so that a rule does not depend on what a private item happens to be called.
Every resolver fails closed (AnchorMissing) when the role has no unique bearer.  Types and enum variants (Frame::Have,
Status::Reserved, PeerCmd::RecvChoke, ...) are the fixed vocabulary the resolvers start from."""
import re
import mirq
from mirq import AnchorMissing, access_path, const_of, show, walk
from rules import common as C


def _memo(F, key, fn):
    d = F.__dict__.setdefault('_vocab', {})
    if key not in d:
        d[key] = fn()
    return d[key]


def field(F, adt, ty_re, what):
    """name of the only field of struct `adt` whose type matches ty_re"""
    def go():
        a = F.adts.get(adt)
        if not a:
            raise AnchorMissing('struct %s not found' % adt)
        hits = [fl['name'] for fl in a['variants'][0]['fields'] if re.search(ty_re, fl['ty'])]
        if len(hits) != 1:
            raise AnchorMissing('%s: struct %s has %d fields of type /%s/: %s' % (what, adt, len(hits), ty_re, hits))
        return hits[0]
    return _memo(F, ('field', adt, ty_re), go)


# ---- session / peer bookkeeping ---------------------------------------------------------------------------------

def status_vec(F):
    return field(F, 'session::Session', r'^std::vec::Vec<session::Status>$', 'status vector')


def peers_map(F):
    return field(F, 'session::Session', r'^std::collections::HashMap<std::string::String, peer::Peer>$', 'peer table')


def peer_record(F):
    """Peer field that records which piece the peer is fetching (Option<usize>)"""
    return field(F, 'peer::Peer', r'^std::option::Option<usize>$', 'record of the piece a peer is fetching')


def peer_bitmap(F):
    return field(F, 'peer::Peer', r'^std::vec::Vec<bool>$', 'pieces the peer advertises')


def is_status_seq(f, e):
    """expression e denotes a sequence of session::Status (the status vector or a parameter that receives it)"""
    e = mirq.strip(e) if hasattr(mirq, 'strip') else e
    p = access_path(e) or ''
    F = f.facts
    if p.split('.')[-1] == status_vec(F) or p.endswith('__' + status_vec(F)):
        return True
    root = p.split('.')[0]
    for n, l, t in C.params_of(f):
        if n == root and 'session::Status' in t:
            return True
    for v in f.raw['vars']:
        if v['n'] == root and 'place' in v and not v['place'].get('p') and 'session::Status' in f.locals[v['place']['l']]['ty']:
            return True
    return False


def status_elem(f, le):
    """(seq_expr, index_expr) when place expression le is an element of a Status sequence"""
    if le[0] == 'call' and le[4].get('name') in ('index_mut', 'index') and len(le[2]) == 2 and is_status_seq(f, le[2][0]):
        return le[2][0], le[2][1]
    return None


def _arm_handlers(F, variant):
    """bodies handling PeerCmd::<variant>: the manager's handler(s) called in that arm and the Peer methods they call"""
    pf, psbs = C.peer_cmd_dispatch(F)
    tgt, region = C.arm_region(pf, psbs[0], variant)
    region = set(region) | {tgt}
    out = []
    for b, t in C.local_calls(F, pf):
        if b in region:
            body = F.body(t)
            if body is not None:
                out.append(body)
                for b2, t2 in C.local_calls(F, body):
                    g = F.fns.get(t2)
                    if g is not None and g.self_ty == 'peer::Peer':
                        out.append(g)
    return out


def peer_flag(F, variant, value, what):
    """the bool field of Peer that the handling of PeerCmd::<variant> sets to `value` (and no other bool field of Peer)"""
    def go():
        bools = {fl['name'] for fl in F.adts['peer::Peer']['variants'][0]['fields'] if fl['ty'] == 'bool'}
        hits = set()
        for g in _arm_handlers(F, variant):
            if g.self_ty != 'peer::Peer':
                continue
            for bi, si, s in g.stores():
                p = access_path(g.expr_place(s['lhs'])) or ''
                c = const_of(g.expr_rvalue(s['rv']))
                if p.startswith('self.') and p[5:] in bools and c is not None and bool(c[0]) == value:
                    hits.add(p[5:])
        if len(hits) != 1:
            raise AnchorMissing('%s: handling of %s sets %s to %s' % (what, variant, sorted(hits), value))
        return list(hits)[0]
    return _memo(F, ('peer_flag', variant, value), go)


def peer_choked(F):
    """Peer.<flag> = the peer is choking us: set when RecvChoke is handled"""
    return peer_flag(F, 'RecvChoke', True, 'peer-is-choking-us flag')


def peer_interested(F):
    return peer_flag(F, 'RecvInterested', True, 'peer-is-interested flag')
