"""C09 -- uploads return exactly the requested stored bytes, or nothing.

Decides: (1) the reply is built only on the Ok edge of request.validate(loaded index, piece
count, loaded length); (2) validate returns Ok only if index < pieces, index == loaded index,
length <= the 16 KiB block constant (the very constant the requester uses) and begin+length <=
piece length; (3) no 32-bit arithmetic on wire fields (begin+length is computed after widening);
(4) the reply carries the request's own index/begin and the slice [begin, begin+length) of the
loaded piece; (5) the manager answers LoadAndSendPiece only when it does not choke the peer,
the index is in range and the piece is Have, with the hash of that same index, and the handler
loads exactly that piece file; (6) a choke is honoured for the cached piece; (7) panic-site
audit of the request path."""
import re
import mirq
from mirq import show, access_path, AnchorMissing, const_of, walk
from rulekit import Table
from rules import common as C
from rules import vocab as V
from rules import C07

TABLE = Table('C09')
NOT_DECIDED = 'that the file on disk still holds the verified bytes (C01 decides who writes it).'


def req_type(F):
    return dict(C07.messages(F))['Request']


def req_fields(F):
    """{'index'|'begin'|'length': field name} of Request, by position on the wire (the decoder's byte ranges, in order)"""
    ty = req_type(F)
    frm = C07.impl_method(F, ty, 'from')
    fills, body = C07.reader_layout2(F, frm)
    at = []
    for bi, si, e in mirq.agg_sites(body, '^' + re.escape(ty) + '$'):
        for fname, x in e[4]:
            x = C07.strip_cast(x)
            if x[0] == 'call' and x[4].get('name') == 'from_be_bytes':
                k = C07._lkey(x[2][0])
                if k in fills and fills[k][0] is not None:
                    at.append((fills[k][0], fname))
    at = sorted(set(at))
    if len(at) != 3:
        raise AnchorMissing('Request::from does not fill three big-endian fields from byte ranges (%s)' % at)
    return dict(zip(('index', 'begin', 'length'), [n for s, n in at]))


def request_handler(F):
    D, sbs = C.frame_dispatch(F)
    disp = max(sbs, key=lambda s: len(D.cond(s)[1]))
    tgt, region = C.arm_region(D, disp, 'Request')
    hs = [t for b, t in C.local_calls(F, D) if b in region or b == tgt]
    return F.body(C.one(hs, 'handler called from the Request arm'))


def reply_fn(F):
    """the function that builds the Piece reply (calls Piece::new)"""
    pn = C07.impl_method(F, dict(C07.messages(F))['Piece'], 'new')
    cs = C.callers(F, pn.path)
    return C.one(cs, 'call site of Piece::new')


@TABLE.rule('1', 'K1+K5b', 'the reply is sent only on the Ok edge of request.validate(loaded index, piece count, loaded length)', floor=2)
def r1(cx, rec):
    F = cx.F
    H = request_handler(F)
    S, sbb = reply_fn(F)
    spath = F.owner_fn(S).path
    val = C07.impl_method(F, req_type(F), 'validate')
    vcalls = C.calls_to_fn(F, H, val.path)
    rec.need(bool(vcalls), 'no-validate', H, None, 'the request handler does not validate the request')
    okreg = set()
    for vb in vcalls:
        e = H.expr_call(vb)
        args = [access_path(a) or show(a) for a in e[2]]
        rec.site(H, vb, 'validate(%s)' % ', '.join(a[:50] for a in args))
        if len(e[2]) != 4:
            rec.violation('validate-signature', H, vb, 'Request::validate is called with %d arguments: the request must be checked against the loaded '
                          'piece\'s index, the piece count and the loaded piece\'s length' % (len(e[2]) - 1))
            continue
        a1, a2, a3 = e[2][1], e[2][2], e[2][3]
        rec.need((access_path(a1) or '').endswith('%s.%s' % (V.tx_slot(F), V.tx_index(F))), 'validate-arg/index', H, vb, 'loaded-index argument is %s' % show(a1)[:80])
        rec.need(access_path(a2) == 'self.' + V.handler_pieces_num(F), 'validate-arg/pieces', H, vb, 'piece-count argument is %s' % show(a2)[:80])
        rec.need(a3[0] == 'call' and a3[4].get('name') == 'len' and (access_path(a3[2][0]) or '').endswith('%s.%s' % (V.tx_slot(F), V.tx_buff(F))), 'validate-arg/length', H, vb,
                 'piece-length argument is %s, not the loaded piece\'s length' % show(a3)[:80])
        for sb, t in H.outcome_edges(vb).get('ok', []):
            okreg |= H.only_via_edge((sb, t))
        ok, why = C.error_propagates(H, vb)
        rec.need(ok, 'validate-error-ignored', H, vb, 'an invalid request does not end the handler with an error: ' + why)
    for f, bb in C.callers(F, spath):
        rec.site(f, bb, 'reply sender called')
        rec.need(f.path == H.path and bb in okreg, 'reply-without-validate', f, bb, 'piece data can be sent without a successful Request::validate')


@TABLE.rule('2', 'K7+K11', 'validate: index < pieces, index == loaded, length <= PIECE_BLOCK_SIZE, begin+length <= piece length', floor=4)
def r2(cx, rec):
    F = cx.F
    V = C07.impl_method(F, req_type(F), 'validate')
    oks = [bi for bi, si, e in mirq.agg_sites(V, r'^std::result::Result$', 'Ok')]
    params = [v['n'] for v in V.raw['vars'] if 'arg' in v and v['n'] != 'self']
    if len(params) != 3:
        raise AnchorMissing('Request::validate has %d parameters' % len(params))
    p_loaded, p_num, p_len = params
    need = {'index<pieces': False, 'index==loaded': False, 'length<=block': False, 'end<=piece': False}
    fld = {k: 'self.' + v for k, v in req_fields(F).items()}
    for sb in V.switches():
        e, ts, o = V.cond(sb)
        if e[0] != 'binop' or not V.bool_edges(sb):
            continue
        tt, ff = V.bool_edges(sb)
        op, a, b = e[1], e[2], e[3]
        pa, pb = access_path(a), access_path(b)

        def dominated(edge):
            return all(x in V.only_via_edge((sb, edge)) for x in oks)
        la, lb = C07.lin(a), C07.lin(b)
        sa, sb_ = show(a), show(b)
        if op in ('Ge', 'Lt') and pa == fld['index'] and pb == p_num:
            if dominated(ff if op == 'Ge' else tt):
                need['index<pieces'] = True
                rec.site(V, sb, 'Ok requires %s < %s' % (pa, pb))
        if op in ('Ne', 'Eq') and pa == fld['index'] and pb == p_loaded:
            if dominated(ff if op == 'Ne' else tt):
                need['index==loaded'] = True
                rec.site(V, sb, 'Ok requires %s == %s' % (pa, pb))
        if op in ('Gt', 'Le') and pa == fld['length'] and const_of(b) and (const_of(b)[1] or '').endswith('PIECE_BLOCK_SIZE'):
            if dominated(ff if op == 'Gt' else tt):
                need['length<=block'] = True
                rec.site(V, sb, 'Ok requires %s <= PIECE_BLOCK_SIZE' % pa)
        if op in ('Gt', 'Le') and pb == p_len:
            inner = a
            while inner[0] in ('cast',) or (inner[0] == 'field' and inner[2] == '0'):
                inner = inner[1]
            if inner[0] == 'binop' and inner[1].startswith('Add'):
                x, y = access_path(inner[2]) or '', access_path(inner[3]) or ''
                if {x, y} == {fld['begin'], fld['length']} and dominated(ff if op == 'Gt' else tt):
                    need['end<=piece'] = True
                    rec.site(V, sb, 'Ok requires %s + %s <= %s' % (x, y, pb))
    for k, v in need.items():
        rec.need(v, 'validate-missing/' + k, V, None, 'Request::validate can return Ok without checking %s' % k)
    # the requester's block size is the same constant
    used = False
    for f in F.user_fns():
        if f.path.startswith('peer_handler::'):
            for bi, si, s in f.assigns():
                for x in walk(f.expr_rvalue(s['rv'])):
                    if x[0] == 'const' and (x[2] or '').endswith('PIECE_BLOCK_SIZE'):
                        used = True
    rec.need(used, 'block-const-not-shared', V, None, 'the requester does not use PIECE_BLOCK_SIZE')
    rec.need(F.const_val('constants::PIECE_BLOCK_SIZE') == 16384, 'block-size', 'constants::PIECE_BLOCK_SIZE', None, 'block size is not 16 KiB')


@TABLE.rule('3', 'K5c', 'no 32-bit (or narrower) add/sub/mul on fields received from the wire', floor=10)
def r3(cx, rec):
    F = cx.F
    n = 0
    for f in F.user_fns():
        in_msg = (f.self_ty or '').startswith('messages::') or f.path.startswith('messages::')
        for bi, si, s in f.assigns():
            rv = s['rv']
            if rv['k'] != 'binop':
                continue
            op = rv['op'].replace('WithOverflow', '').replace('Unchecked', '')
            if op not in ('Add', 'Sub', 'Mul'):
                continue
            if not (in_msg or f.path.startswith('peer_handler::') or f.path.startswith('peer::')):
                continue
            n += 1
            ty = f.locals[s['lhs']['l']]['ty']
            narrow = re.match(r'^\(?(u8|u16|u32|i8|i16|i32)\b', ty) is not None
            e = f.expr_rvalue(rv)
            wire = False
            for side in (e[2], e[3]):
                p = access_path(side) or ''
                if in_msg and p.startswith('self.'):
                    wire = True
                if any(x[0] == 'call' and x[1].startswith('messages::') for x in walk(side)):
                    wire = True
            if narrow:
                rec.site(f, bi, '%s arithmetic %s wire=%s' % (ty, show(e)[:80], wire))
            if narrow and wire:
                rec.violation('wire-arith/%s/%s' % (f.path, re.sub(r'WithOverflow', '', show(e))[:100]), f, bi,
                              '%s arithmetic on values received from the peer: %s can overflow (panic in debug builds, wrap-around and a '
                              'later out-of-range slice in release builds)' % (ty.strip('()').split(',')[0], show(e)[:100]))
    for _ in range(min(n, 12)):
        pass
    rec.note('%d add/sub/mul statements inspected in messages::*, peer_handler, peer' % n)
    # count inspected statements as sites so that an empty scan fails closed
    for f in F.user_fns():
        if (f.self_ty or '').startswith('messages::'):
            for bi, si, s in f.assigns():
                if s['rv']['k'] == 'binop' and s['rv']['op'].startswith(('Add', 'Sub', 'Mul')):
                    rec.site(f, bi, 'inspected: ' + show(f.expr_rvalue(s['rv']))[:70])


@TABLE.rule('4', 'K5b', 'the reply is Piece::new(request.index, request.begin, loaded[begin .. begin+length]) of one and the same request', floor=1)
def r4(cx, rec):
    F = cx.F
    S, sbb = reply_fn(F)
    e = S.expr_call(sbb)
    idx, beg, data = e[2]
    rec.site(S, sbb, 'Piece::new(%s, %s, ...)' % (show(idx)[:60], show(beg)[:60]))
    reqs = set()

    def acc(x, name):
        ok = x is not None and x[0] == 'call' and x[1].endswith('Request::' + name)
        if ok:
            reqs.add(access_path(x[2][0]))
        return ok
    rec.need(acc(idx, 'piece_index'), 'reply-index', S, sbb, 'reply index is %s' % show(idx)[:80])
    rec.need(acc(beg, 'block_begin'), 'reply-begin', S, sbb, 'reply offset is %s' % show(beg)[:80])
    sl = [x for x in walk(data) if x[0] == 'call' and x[4].get('name') == 'index' and len(x[2]) == 2 and x[2][1][0] == 'agg']
    rec.need(len(sl) == 1, 'reply-slice', S, sbb, 'reply payload is not one slice of the loaded piece')
    if len(sl) == 1:
        src = access_path(sl[0][2][0]) or ''
        rng = dict(sl[0][2][1][4])
        st, en = rng.get('start'), rng.get('end')
        rec.need(src.endswith('%s.%s' % (V.tx_slot(F), V.tx_buff(F))), 'reply-source', S, sbb, 'payload is sliced from %s' % src)
        rec.need(st is not None and acc(st, 'block_begin'), 'reply-slice-start', S, sbb, 'slice starts at %s' % (show(st)[:80] if st else 'the beginning of the piece'))
        inner = mirq.init_of(en) if en else ('other', '')
        while inner[0] == 'field' and inner[2] == '0':
            inner = inner[1]
        ok_end = inner[0] == 'binop' and inner[1].startswith('Add') and acc(inner[2], 'block_begin') and acc(inner[3], 'block_length')
        rec.need(ok_end, 'reply-slice-end', S, sbb, 'slice ends at %s, not begin+length' % show(en)[:100] if en else 'no end')
    rec.need(len(reqs) == 1, 'reply-mixed-requests', S, sbb, 'reply mixes fields of different requests: %s' % sorted(reqs))


@TABLE.rule('5', 'K7', 'manager: LoadAndSendPiece only if not choking the peer, index in range and piece Have; hash of the same '
            'index; the handler loads exactly that piece file and caches it under the announced index', floor=4)
def r5(cx, rec):
    F = cx.F
    builders = C.fns_constructing(F, r'^commands::RequestCmd$', 'LoadAndSendPiece')
    B = C.one(builders, 'constructor of RequestCmd::LoadAndSendPiece')
    for bi, si, e in mirq.agg_sites(B, r'^commands::RequestCmd$', 'LoadAndSendPiece'):
        fields = dict(e[4])
        idx = access_path(fields['piece_index'])
        h = fields[V.variant_field(F, 'commands::RequestCmd', 'LoadAndSendPiece', r'^\[u8; HASH_SIZE\]$', 'hash of the piece to load')]
        rec.site(B, bi, show(e)[:160])
        rec.need(h[0] == 'call' and h[1].endswith('Metainfo::piece') and access_path(h[2][1]) == idx, 'load-hash-index', B, bi,
                 'piece_hash is %s, not metainfo.piece(%s)' % (show(h)[:80], idx))
        need = {'not-choked': False, 'in-range': False, 'have': False}
        for sb in B.switches():
            ce, ts, o = B.cond(sb)
            be = B.bool_edges(sb)
            if not be:
                continue
            tt, ff = be
            neg = False
            x = ce
            while x[0] == 'unop' and x[1] == 'Not':
                neg = not neg
                x = x[2]
            if neg:
                tt, ff = ff, tt

            def only(edge):
                return bi in B.only_via_edge((sb, edge))
            if access_path(x) == 'self.' + V.peer_am_choked(F) and only(ff):
                need['not-choked'] = True
                rec.site(B, sb, 'requires !self.am_choked')
            if x[0] == 'binop' and x[1] in ('Ge', 'Lt') and access_path(x[2]) == idx and 'pieces_num' in show(x[3]):
                if only(ff if x[1] == 'Ge' else tt):
                    need['in-range'] = True
                    rec.site(B, sb, 'requires %s < pieces_num' % idx)
            if x[0] == 'call' and x[4].get('name') in ('ne', 'eq') and any(y[0] == 'agg' and y[3] == 'Have' for y in walk(x)):
                el = x[2][0]
                same = el[0] == 'call' and el[4].get('name') == 'index' and access_path(el[2][1]) == idx
                if same and only(ff if x[4]['name'] == 'ne' else tt):
                    need['have'] = True
                    rec.site(B, sb, 'requires status[%s] == Have' % idx)
        for k, v in need.items():
            rec.need(v, 'load-unguarded/' + k, B, bi, 'LoadAndSendPiece can be answered without the guard "%s"' % k)
    # the handler side: loads hash_to_string(piece_hash) + ".piece", caches under piece_index
    loaders = []
    for f in F.user_fns():
        for bb in mirq.real_calls(f):
            if re.search(r'(^|::)fs::read$', f.blocks[bb]['t'].get('callee') or ''):
                e = f.expr_call(bb)
                if any(x[0] == 'str' and x[1] == '.piece' for x in walk(e)):
                    loaders.append((f, bb, e))
    L = C.one(loaders, 'piece-file loader (fs::read of *.piece)')
    f, bb, e = L
    hs = [x for x in walk(e) if x[0] == 'call' and x[1].endswith('hash_to_string')]
    src = access_path(hs[0][2][0]) if hs else None
    rec.site(f, bb, 'loads hash_to_string(%s) + ".piece"' % src)
    LO = F.owner_fn(f)
    hash_params = [n for n, l, t in C.params_of(LO, r'\[u8; (20|HASH_SIZE)\]')]
    idx_params = [n for n, l, t in C.params_of(LO, r'^usize$')]
    rec.need(len(hash_params) == 1 and src == hash_params[0], 'load-name', f, bb, 'piece file name is built from %s' % src)
    cmd_hash = V.variant_field(F, 'commands::RequestCmd', 'LoadAndSendPiece', r'^\[u8; HASH_SIZE\]$', 'hash of the piece to load')
    cmd_idx = V.variant_field(F, 'commands::RequestCmd', 'LoadAndSendPiece', r'^usize$', 'index of the piece to load')
    pnames = [n for n, l, t in C.params_of(LO)]
    for g, gb in C.callers(F, LO.path):
        ce = g.expr_call(gb)
        args = dict(zip(pnames, ce[2]))
        a_idx = show(args.get(idx_params[0], ('other', ''))) if len(idx_params) == 1 else ''
        a_hash = show(args.get(hash_params[0], ('other', ''))) if len(hash_params) == 1 else ''
        okk = ('LoadAndSendPiece>.' + cmd_idx) in a_idx and ('LoadAndSendPiece>.' + cmd_hash) in a_hash
        rec.need(okk, 'load-args', g, gb, 'loader is called with (%s, %s)' % (a_idx[-40:], a_hash[-40:]))
    for bi, si, x in mirq.agg_sites(f, r'PieceTx$'):
        fields = dict(x[4])
        ci = fields.get(V.tx_index(F), ('other', ''))
        rec.need(len(idx_params) == 1 and access_path(ci) == idx_params[0], 'cache-index', f, bi, 'cached piece index is %s' % show(ci)[:60])
        rec.need('fs::read' in show(fields.get(V.tx_buff(F), ('other', ''))), 'cache-data', f, bi, 'cached data is not the file just read')


@TABLE.rule('6', 'K1', 'choke is honoured: every request either consults the manager, or the cached piece is dropped when the '
            'manager chokes the peer', floor=2)
def r6(cx, rec):
    F = cx.F
    H = request_handler(F)
    S, sbb = reply_fn(F)
    spath = F.owner_fn(S).path
    consult = [f for f in C.fns_constructing(F, r'^commands::PeerCmd$', 'RecvRequest')]
    cpaths = {F.owner_fn(f).path for f in consult}
    ccalls = [bb for bb, t in C.local_calls(F, H) if t in cpaths]
    replies = C.calls_to_fn(F, H, spath)
    ok_a, bad = C.must_pass(H, ccalls, replies)
    rec.site(H, None, 'every reply path consults the manager: %s' % ok_a)
    # idiom (b): the choke arm drops the cache
    ok_b = False
    for f in F.user_fns():
        for sb in f.switches():
            ce, ts, o = f.cond(sb)
            if ce[0] == 'discr' and ce[2].startswith('std::option::Option<&bool>') or (ce[0] == 'discr' and V.own_state_map(F) in show(ce)):
                # arm Some(true): find the block sending Choke and look for the None store on the same path
                for bb in mirq.real_calls(f):
                    t = f.blocks[bb]['t']
                    if 'send_msg' in (t.get('callee') or '') and 'Choke' in ''.join(t.get('gargs') or []) and 'Unchoke' not in ''.join(t.get('gargs') or []):
                        stores = [(bi, s) for bi, si, s in f.stores()
                                  if (access_path(f.expr_place(s['lhs'])) or '') == 'self.' + V.tx_slot(F)
                                  and f.expr_rvalue(s['rv'])[0] == 'agg' and f.expr_rvalue(s['rv'])[3] == 'None']
                        for bi, s in stores:
                            # the store is on every path from the switch to the Choke send, or vice versa on the arm
                            if bb in f.reach_from(bi) and bi not in f.explore(cut_blocks=[bi]) | set() and True:
                                pass
                            arm_paths = f.explore(cut_blocks=[bi])
                            if bb not in arm_paths:
                                ok_b = True
                                rec.site(f, bi, 'cached upload piece dropped before Choke is sent')
    rec.need(ok_a or ok_b, 'choke-not-honoured', H, None,
             'a request for the piece already cached on the connection is answered without asking the manager, and the cache '
             'survives a choke: a peer choked after its first request keeps being served')


ALLOW = {
    'peer_handler::PeerHandler::send_piece::{closure#0}/index/': 'slice [begin..begin+length] of the loaded piece: bounded by Request::validate Ok edge (obligations 1, 2)',
    'peer_handler::Stats::update_uploaded/index/': 'VecDeque index 0: queue is created with one element and shift() pushes before it pops beyond MAX',
    'peer_handler::Stats::update_uploaded/overflow:Add/': 'usize byte counter',
}


@TABLE.rule('7', 'K4', 'panic-site audit of the request path (handler, validate, reply, loader)', floor=3)
def r7(cx, rec):
    F = cx.F
    H = request_handler(F)
    roots = [F.owner_fn(H).path]
    skip = set()
    # the manager round trip and the socket writer are audited elsewhere (C12 / library code)
    a = C.Audit(F, roots, ALLOW, skip_fns=skip)
    a.run(rec)


@TABLE.rule('8', 'K7+K8', 'the manager\'s record "we choke this peer" is what the peer is told: every choke/unchoke decision of the rotation '
            'updates am_choked and publishes the same value (shared with C14)', floor=2)
def r8(cx, rec):
    from rules import C14
    C14.r1(cx, rec)
    C14.r4(cx, rec)


@TABLE.rule('9', 'K2', 'whole messages reach the socket: the connection writes with write_all, never with a call that may write a prefix', floor=1)
def r9(cx, rec):
    F = cx.F
    n = 0
    for f in F.user_fns():
        if not f.path.startswith('connection::'):
            continue
        for bb in mirq.real_calls(f):
            cal = f.blocks[bb]['t'].get('callee') or ''
            if re.search(r'AsyncWriteExt::write_all$', cal):
                n += 1
                rec.site(f, bb, 'write_all')
            elif re.search(r'AsyncWriteExt::(write|write_buf|write_vectored)$|TcpStream::try_write', cal):
                rec.violation('partial-write/' + F.owner_fn(f).path, f, bb,
                              'the connection sends with %s, which may write only a prefix of the message: under back pressure a piece '
                              'message is truncated and the following answers carry wrong bytes' % cal.split('::')[-1])
    rec.need(n >= 1, 'no-write-all', 'connection', None, 'the connection never writes a whole message')
