"""C05 -- the info-hash is the SHA-1 of the exact info value (plumbing clauses; search depth reported).

Decides: (1) Metainfo.info_hash is stored only in the struct literal of the parser, from the hash
function applied to the same buffer that was handed to the bencode decoder (one buffer is both
parsed and hashed); (2) the hash function feeds SHA-1 exactly once with the bytes returned by the
raw finder for the key literal "4:info" and returns the digest bytes; (3) consumers receive that
field: tracker URL, both handler constructors, own handshake argument order (shared with C08/C18);
(4) the raw re-serialisers agree with the grammar tables (shared with C15); (5) the key matcher
that returns the value must not recurse on value positions: a matcher inside a recursive search
can return a nested `info`."""
import re
import mirq
from mirq import show, access_path, AnchorMissing, const_of, walk
from rulekit import Table
from rules import common as C
from rules import vocab as V

TABLE = Table('C05')
NOT_DECIDED = ('equality of the returned bytes with the exact span for all documents (value-level).')


def hash_fn(F):
    fs = [f for f in C.fns_constructing(F, r'^error::Error$', 'InfoMissing') if not (f.trait or '').endswith('Display')]
    return C.one(fs, 'function constructing Error::InfoMissing (info-hash calculator)')


@TABLE.rule('1', 'K2+K5b', 'info_hash is stored once, from hash(data) with data = the very buffer given to the decoder', floor=2)
def r1(cx, rec):
    F = cx.F
    H = hash_fn(F)
    writers = []
    for f in F.user_fns():
        for bi, si, e in mirq.agg_sites(f, r'^metainfo::Metainfo$'):
            writers.append((f, bi, e))
        for bi, si, s in f.stores():
            if ('metainfo::Metainfo', 'info_hash') in mirq.place_fields(s['lhs']):
                rec.violation('info-hash-mutated/' + f.path, f, bi, 'info_hash is assigned after construction')
    rec.need(len(writers) == 1, 'metainfo-constructors', 'metainfo', None, 'Metainfo is built in %d places' % len(writers))
    for f, bi, e in writers:
        src = dict(e[4]).get('info_hash')
        x = src
        x = mirq.peel_ok(x)
        rec.site(f, bi, 'info_hash <- %s' % show(src)[:80])
        ok = x[0] == 'call' and x[1] == H.path
        rec.need(ok, 'info-hash-source', f, bi, 'info_hash is initialised from %s' % show(src)[:80])
        if ok:
            buf = access_path(x[2][0])
            params = [v['n'] for v in f.raw['vars'] if 'arg' in v]
            rec.need(buf in params, 'hash-buffer', f, bi, 'the hashed buffer %s is not the parser\'s input parameter' % buf)
            # callers: the same expression is passed to the decoder and to the parser
            for g, gb in C.callers(F, f.path):
                a = access_path(g.expr_call(gb)[2][params.index(buf)])
                dec = [b2 for b2 in mirq.real_calls(g) if (g.blocks[b2]['t'].get('callee') or '') == V.codec_fn(F, 'from_array').path]
                da = [access_path(g.expr_call(b2)[2][0]) for b2 in dec]
                rec.site(g, gb, 'decoder input %s, hashed buffer %s' % (da, a))
                rec.need(da == [a], 'parsed-and-hashed-buffers-differ', g, gb, 'the buffer that is decoded (%s) is not the buffer that is hashed (%s)' % (da, a))
                # and the dictionary given to the parser comes from that decode
                d = show(g.expr_call(gb)[2][1 - params.index(buf)]) if len(params) == 2 else ''
                srcit = mirq.deps(g, g.expr_call(gb)[2][1 - params.index(buf)]) if len(params) == 2 else set()
                rec.need(any(V.codec_fn(F, 'from_array').path in show(mirq.init_of(y)) for y in walk(g.expr_call(gb)[2][1 - params.index(buf)])) or 'iter' in srcit, 'dict-source', g, gb, 'parsed dictionary does not come from the decoder')


@TABLE.rule('2', 'K5b', 'hash function: SHA-1 updated exactly once with find_first("4:info", data); returns digest bytes', floor=2)
def r2(cx, rec):
    F = cx.F
    H = hash_fn(F)
    ups = [bb for bb in mirq.real_calls(H) if (H.blocks[bb]['t'].get('callee') or '').endswith('Sha1::update')]
    rec.need(len(ups) == 1, 'hash-update-count', H, None, 'hasher is fed %d times' % len(ups))
    for ub in ups:
        e = H.expr_call(ub)
        src = e[2][1]
        ff = [x for x in walk(src) if x[0] == 'call' and x[4].get('name') == 'find_first']
        rec.site(H, ub, 'hashes %s' % show(src)[:100])
        rec.need(len(ff) == 1, 'hash-input', H, ub, 'hashed bytes are %s, not the finder\'s result' % show(src)[:80])
        if ff:
            key, data = ff[0][2]
            params = [v['n'] for v in H.raw['vars'] if 'arg' in v]
            rec.need(key[0] == 'str' and key[1] == '4:info', 'hash-key', H, ub, 'finder key is %s' % show(key))
            rec.need(access_path(data) in params, 'hash-data', H, ub, 'finder searches %s' % show(data)[:60])
            rec.need(show(src).endswith('<Some>.0') or access_path(src) is not None, 'hash-slice', H, ub, 'only part of the found value is hashed: %s' % show(src)[:80])
            t = H.blocks[ff[0][3]]['t']
            rec.need((t.get('resolved') or '').find('DeepFinder') >= 0 or 'DeepFinder' in (t.get('callee_full') or ''), 'hash-finder', H, ub, 'finder implementation is %s' % t.get('callee_full'))
    oks = [e for bi, si, e in mirq.agg_sites(H, r'^std::result::Result$', 'Ok')]
    for e in oks:
        v = show(e[4][0][1])
        rec.site(H, None, 'returns Ok(%s)' % v[:80])
        rec.need('Digest::bytes(' in v and 'Sha1::digest(' in v, 'hash-return', H, None, 'returned value is %s' % v[:80])


@TABLE.rule('3', 'K5b', 'consumers: tracker URL, handler constructors and own handshake receive the info-hash', floor=3)
def r3(cx, rec):
    from rules import C08, C18
    C08.r2(cx, rec)
    C18.r1(cx, rec)


@TABLE.rule('4', 'K6', 'raw re-serialisers agree with the grammar tables', floor=8)
def r4(cx, rec):
    from rules import C15
    C15.r2(cx, rec)


REGEN = ('to_string', 'format', 'into_bytes', 'to_be_bytes', 'to_le_bytes', 'fmt')


@TABLE.rule('4b', 'K5b', 'the raw form a token parser returns is copied from the input span (digits as written), never re-generated from '
            'the parsed value', floor=2)
def r4b(cx, rec):
    F = cx.F
    # token parsers of both codecs: functions that return (value, raw bytes) or raw bytes and consume the input iterator
    cands = [f for f in F.user_fns() if f.path.startswith('bcodec::') and f.kind in ('Fn', 'AssocFn') and C.params_of(f, r'Enumerate<') and
             re.search(r'^std::result::Result<(\(.*, std::vec::Vec<u8>\)|std::vec::Vec<u8>),', f.locals[0]['ty'])]
    n = 0
    for f in cands:
        for bi, si, e in mirq.agg_sites(f, r'^std::result::Result$', 'Ok'):
            t = e[4][0][1]
            raw = t[4][-1][1] if t[0] == 'agg' and t[1] == 'tuple' else t
            contribs = [mirq.init_of(raw) if raw[0] in ('var', 'mvar') else raw]
            idn = mirq._ident(raw) if raw[0] in ('var', 'mvar') else None
            if idn:
                for bb, ce in mirq.sharing_calls(f, idn):
                    if ce[4].get('name') in ('push', 'append', 'extend', 'extend_from_slice', 'insert', 'push_str', 'resize'):
                        contribs.extend(ce[2][1:])
            regen = sorted({x[4].get('name') for c in contribs for x in walk(c, inl=False)
                            if x[0] == 'call' and (x[4].get('name') in REGEN or x[1].endswith('fmt::format'))})
            n += 1
            rec.site(f, bi, '%s: raw form built from %d contribution(s), re-generating calls: %s' % (f.name, len(contribs), regen))
            rec.need(not regen, 'raw-regenerated/' + f.name, f, bi,
                     'the raw bytes returned by %s are produced by %s from the parsed value: a non-canonical but accepted spelling '
                     '(leading zeros in a length, "-0") is hashed in its canonical form, not as written' % (f.name, regen))
    rec.need(n >= 2, 'raw-parsers', 'bcodec', None, 'token parsers returning raw bytes found: %d' % n)


def key_params(f):
    """names of the byte-string parameters of a finder function (the wanted key)"""
    return {n for n, l, t in C.params_of(f, r'^&\[u8\]$|^&str$|^&std::vec::Vec<u8>$')}


@TABLE.rule('5', 'call graph', 'the key matcher that returns the value is not part of a recursive search over value positions', floor=1)
def r5(cx, rec):
    F = cx.F
    H = hash_fn(F)
    # the matcher: function comparing a re-serialised key with the wanted key (== key) and returning the following value
    matchers = []
    for f in F.user_fns():
        if not f.path.startswith('bcodec::'):
            continue
        keys = key_params(f)
        if not keys:
            continue
        cmps = [bb for bb in mirq.real_calls(f) if f.expr_call(bb)[4].get('name') in ('eq', 'ne') and any(access_path(a) in keys for a in f.expr_call(bb)[2])]
        if cmps:
            matchers.append((f, cmps))
    rec.need(bool(matchers), 'no-matcher', H, None, 'no key matcher found')
    cg = F.callgraph()
    for f, cmps in matchers:
        selfrec = [bb for bb in mirq.real_calls(f) if (f.blocks[bb]['t'].get('callee') or '') == f.path]
        reach = F.reachable_fns(list(cg.get(f.path, ())))
        rec.site(f, cmps[0], 'key matcher; recursive call sites: %d' % len(selfrec))
        if f.path in reach:
            rec.violation('nested-key-match/' + f.path, f, selfrec[0] if selfrec else None,
                          'the matcher descends into dictionary values (and keys) and returns the first value whose key matches anywhere in '
                          'the tree: for d1:ad4:infoi1ee4:infod...ee the hash is taken over the nested i1e, while the parser reads the '
                          'top-level info dictionary')


@TABLE.rule('5b', 'K1', 'in the key matcher a recursive descent happens only after the current key is known not to match (a matched key returns its own value first)', floor=2)
def r5b(cx, rec):
    F = cx.F
    for f in F.user_fns():
        if not f.path.startswith('bcodec::') or f.kind == 'Closure':
            continue
        keys = key_params(f)
        if not keys:
            continue
        selfrec = [bb for bb in mirq.real_calls(f) if (f.blocks[bb]['t'].get('callee') or '') == f.path]
        if not selfrec:
            continue
        # the match flag: named local assigned from comparisons with `key`
        flags = set()
        for bi, si, s in f.assigns():
            if not s['lhs'].get('p'):
                nm = f._localnames.get(s['lhs']['l'])
                e = f.expr_rvalue(s['rv'])
                if nm and any(x[0] == 'call' and x[4].get('name') in ('eq', 'ne') and any(access_path(a) in keys for a in x[2]) for x in walk(e)):
                    flags.add(nm)
            t = f.blocks[bi]['t']
        for bb in mirq.real_calls(f):
            t = f.blocks[bb]['t']
            if t.get('name') in ('eq', 'ne') and not t['dest'].get('p'):
                nm = f._localnames.get(t['dest']['l'])
                if nm and any(access_path(a) in keys for a in f.expr_call(bb)[2]):
                    flags.add(nm)
        for rb in selfrec:
            ok = False
            for sb in f.switches():
                ce, ts, o = f.cond(sb)
                be = f.bool_edges(sb)
                if not be:
                    continue
                tt, ff = be
                x = ce
                neg = False
                while x[0] == 'unop' and x[1] == 'Not':
                    neg = not neg
                    x = x[2]
                is_flag = x[0] in ('var', 'mvar') and x[1] in flags
                is_cmp = x[0] == 'call' and x[4].get('name') in ('eq', 'ne') and any(access_path(a) in keys for a in x[2])
                if is_cmp and x[4].get('name') == 'ne':
                    neg = not neg
                not_matched = tt if neg else ff
                if (is_flag or is_cmp) and (rb in f.only_via_edge((sb, not_matched)) or rb == not_matched):
                    ok = True
            rec.site(f, rb, 'recursive descent only on the not-matched edge: %s (match flags: %s)' % (ok, sorted(flags)))
            rec.need(ok, 'descent-before-match/' + f.path, f, rb,
                     'the matcher descends into a nested dictionary before honouring a match of the current key: a key spelled like the wanted '
                     'one inside the value shadows the value itself, and the hash is taken over the inner value')


@TABLE.rule('5c', 'K7', 'raw re-serialisers emit the wrapper bytes depending only on the extract flag, never on the content', floor=2)
def r5c(cx, rec):
    F = cx.F
    # the raw re-serialisers: span copiers over the input iterator with exactly one flag (emit or skip) and no key
    raws = [x for x in F.user_fns() if x.path.startswith('bcodec::') and x.kind != 'Closure' and
            x.locals[0]['ty'].startswith('std::result::Result<std::vec::Vec<u8>') and len(C.params_of(x, r'^bool$')) == 1 and
            not C.params_of(x, r'&\[u8\]') and C.params_of(x, r'Enumerate<')]
    if len(raws) < 4:
        raise AnchorMissing('raw re-serialisers: found %s' % [x.path for x in raws])
    for f in raws:
        fn = f.name
        flag = C.params_of(f, r'^bool$')[0][0]
        conds = []
        for sb in f.switches():
            ce, ts, o = f.cond(sb)
            if f.bool_edges(sb):
                conds.append(show(ce))
        rec.site(f, None, '%s branches on %s' % (fn, conds))
        bad = [c for c in conds if c != flag]
        rec.need(not bad, 'raw-content-dependent/' + fn, f, None,
                 '%s decides what to emit by %s: the re-serialised bytes then differ from the input span for some contents (e.g. an empty list)' % (fn, bad))


@TABLE.rule('5d', 'K11', 'the finder\'s entry point scans the top level without emitting anything itself (extract flag false): only the value '
            'of the matched key is returned', floor=1)
def r5d(cx, rec):
    F = cx.F
    n = 0
    for f in F.user_fns():
        if not f.path.startswith('bcodec::deep_finder::') or f.kind == 'Closure':
            continue
        bools = C.params_of(f, r'^bool$')
        if len(bools) < 2 or not C.params_of(f, r'Option<&\[u8\]>'):
            continue
        names = [n2 for n2, l2, t2 in C.params_of(f)]
        for g, gb in C.callers(F, f.path):
            if C.params_of(g, r'Enumerate<'):
                continue        # nested call from another scanner
            args = g.expr_call(gb)[2]
            n += 1
            flags = [(nm, args[names.index(nm)]) for nm, l2, t2 in bools]
            vals = [const_of(a) for nm, a in flags]
            rec.site(g, gb, 'top-level scan flags: %s' % [(nm, show(a)) for nm, a in flags])
            rec.need(all(v is not None and a[0] == 'const' and v[0] == 0 for v, (nm, a) in zip(vals, flags)), 'finder-entry-flags', g, gb,
                     'the finder\'s top-level scan is started with %s: with the emit flag set, "key not found" returns the raw text of '
                     'stray top-level values instead of nothing' % [(nm, show(a)) for nm, a in flags])
    rec.need(n >= 1, 'finder-entry', 'bcodec::deep_finder', None, 'no top-level call of the raw scanner found')
