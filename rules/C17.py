"""C17 -- the metainfo model is a faithful, safe reading of the .torrent.

Decides: (1) panic-site audit of everything reachable from Metainfo::from_bencode/from_file;
(2) division safety: every division/remainder whose divisor is the stored piece length is safe
because the only place that stores the field takes its value from a function that returns Ok only
on the passing edge of a non-zero test; (3) key tables: each Metainfo field is read from its own
key (announce, info/name, info/piece length, info/pieces, info/length, info/files, per file
length and path); the torrent creator writes the same keys, stores the very chunk-size constant
under "piece length", the file size under "length", the file name under "name" and one SHA-1 per
chunk, in order, under "pieces"; (4) `length` and `files`: both present or both absent are
errors; (5) piece hashes and the file list are produced by order-preserving adaptor chains."""
import re
import mirq
from mirq import show, access_path, AnchorMissing, const_of, walk
from rulekit import Table
from rules import common as C
from rules import vocab as V

TABLE = Table('C17')
NOT_DECIDED = ('equality of the parsed values with the document (value-level); u64 sum overflow inside Iterator::sum and '
               'u64 -> usize casts (64-bit target assumed); accessor behaviour for invalid indices.')

ALLOW = {
    'metainfo::Metainfo::find_pieces::{closure#0}/unwrap/': 'chunk.try_into().unwrap(): chunks(HASH_SIZE) of a slice whose length % HASH_SIZE == 0 (obligation 1b)',
}


def meta_parse(F):
    fs = [f for f in F.user_fns() if mirq.agg_sites(f, r'^metainfo::Metainfo$')]
    return C.one(fs, 'function building Metainfo')


@TABLE.rule('1', 'K4', 'panic-site audit of Metainfo::from_bencode / from_file (incl. decoder and deep finder)', floor=2)
def r1(cx, rec):
    F = cx.F
    roots = [f.path for f in F.user_fns() if f.self_ty == 'metainfo::Metainfo' and f.name in ('from_bencode', 'from_file')]
    if len(roots) != 2:
        raise AnchorMissing('Metainfo::from_bencode / from_file')
    a = C.Audit(F, roots, ALLOW)
    fns, n = a.run(rec)
    rec.site(F.fn(roots[0]), None, '%d functions reachable, %d panic-capable sites' % (len(fns), n))
    # 1b: the unwrap in find_pieces is dominated by the divisibility test with the same constant
    fp = [f for f in F.user_fns() if f.path.startswith('metainfo::') and f.kind != 'Closure' and any(f.expr_call(bb)[4].get('name') == 'chunks' for bb in mirq.real_calls(f)) and 'HASH' in show(f.expr_call([bb for bb in mirq.real_calls(f) if f.expr_call(bb)[4].get('name') == 'chunks'][0]))]
    P = C.one(fp, 'function splitting the pieces string into hashes')
    ch = [bb for bb in mirq.real_calls(P) if P.expr_call(bb)[4].get('name') == 'chunks'][0]
    size = const_of(P.expr_call(ch)[2][1])
    ok = False
    for sb in P.switches():
        e, ts, o = P.cond(sb)
        if e[0] == 'binop' and e[1] in ('Ne', 'Eq') and const_of(e[3]) and const_of(e[3])[0] == 0 and e[2][0] == 'binop' and e[2][1] == 'Rem':
            d = const_of(e[2][3])
            tt, ff = P.bool_edges(sb)
            div_edge = ff if e[1] == 'Ne' else tt
            if d and size and d[0] == size[0] and ch in P.only_via_edge((sb, div_edge)):
                ok = True
                rec.site(P, sb, 'chunks(%s) only after len %% %s == 0' % (size[0], d[0]))
    rec.need(ok, 'pieces-split-unguarded', P, ch, 'the pieces string is split into %s-byte hashes without first requiring its length to be a multiple of %s' % (size, size))


@TABLE.rule('2', 'K4+K1', 'division safety: the stored piece length is non-zero by construction wherever it is used as a divisor', floor=4)
def r2(cx, rec):
    F = cx.F
    divs = []
    for f in F.user_fns():
        for bi, si, s in f.assigns():
            rv = s['rv']
            if rv['k'] == 'binop' and rv['op'] in ('Div', 'Rem'):
                e = f.expr_rvalue(rv)
                p = access_path(e[3]) or ''
                if p.endswith('.' + V.meta_piece_length(F)):
                    divs.append((f, bi, e))
    for f, bi, e in divs:
        rec.site(f, bi, '%s by the stored piece length' % e[1])
    rec.need(len(divs) >= 3, 'divisions-not-found', 'metainfo', None, 'expected divisions by the piece length were not found')
    # who stores the field
    P = meta_parse(F)
    writers = []
    for f in F.user_fns():
        for bi, si, s in f.stores():
            pf = mirq.place_fields(s['lhs'])
            if ('metainfo::Metainfo', V.meta_piece_length(F)) in pf:
                writers.append((f, bi))
    rec.need(not writers, 'piece-length-mutated', 'metainfo', None, 'piece_length is assigned after construction in %s' % [w[0].path for w in writers])
    for bi, si, e in mirq.agg_sites(P, r'^metainfo::Metainfo$'):
        src = dict(e[4]).get(V.meta_piece_length(F))
        x = src
        x = mirq.peel_ok(x)
        rec.site(P, bi, 'piece_length <- %s' % show(src)[:80])
        if not (x[0] == 'call' and x[1] in F.fns):
            rec.violation('piece-length-source', P, bi, 'piece_length is initialised from %s' % show(src)[:80])
            continue
        G = F.fn(x[1])
        oks = [(b2, oe) for b2, s2, oe in mirq.agg_sites(G, r'^std::result::Result$', 'Ok')]
        good = bool(oks)
        for b2, oe in oks:
            val = oe[4][0][1]
            nz = False
            c = const_of(val)
            if c and c[0]:
                nz = True
            for sb in G.switches():
                ce, ts, o = G.cond(sb)
                if ce[0] == 'binop' and G.bool_edges(sb) and const_of(ce[3]) and const_of(ce[3])[0] == 0 and show(ce[2]) == show(val):
                    tt, ff = G.bool_edges(sb)
                    edge = {'Gt': tt, 'Ne': tt, 'Eq': ff, 'Le': ff}.get(ce[1])
                    if edge is not None and (b2 in G.only_via_edge((sb, edge)) or b2 == edge):
                        nz = True
                        rec.site(G, sb, 'Ok(piece length) only on the non-zero edge of %s' % ce[1])
                if ce[0] == 'binop' and ce[1] in ('Ge', 'Lt') and const_of(ce[3]) and (const_of(ce[3])[0] or 0) >= 1 and show(ce[2]) == show(val) and G.bool_edges(sb):
                    tt, ff = G.bool_edges(sb)
                    edge = tt if ce[1] == 'Ge' else ff
                    if b2 in G.only_via_edge((sb, edge)):
                        nz = True
            good = good and nz
        rec.need(good, 'piece-length-zero-accepted', G, None,
                 'a piece length of 0 is accepted by %s: every later piece_length()/piece_pos() divides by zero' % G.path)


def key_table(F):
    """Metainfo field -> (key, parent key) it must be read from; fields are resolved by type, the two strings by the key
    their initialiser reads (so that what the rest of the crate calls "announce" / "name" is what the parser filled from them)"""
    return {
        V.meta_announce(F): ('announce', None),
        V.meta_name(F): ('name', 'info'),
        V.meta_piece_length(F): ('piece length', 'info'),
        V.meta_hashes(F): ('pieces', 'info'),
    }


def finder(F, keys):
    """the Metainfo function that reads exactly the dictionary keys `keys` (outermost first)"""
    fs = [f for f in F.user_fns() if f.self_ty == V.MI and f.kind == 'AssocFn' and keys_read(f) == keys]
    return C.one(fs, 'reader of keys %s' % keys)


def writer_fn(F):
    """the torrent creator: the Metainfo function that inserts the literal keys of a .torrent into dictionaries"""
    fs = []
    for f in F.user_fns():
        if f.self_ty != V.MI or f.kind != 'AssocFn':
            continue
        n = 0
        for bb in mirq.real_calls(f):
            e = f.expr_call(bb)
            if e[4].get('name') == 'insert' and len(e[2]) == 3 and any(x[0] == 'bytes' for x in walk(e[2][1], inl=False)):
                n += 1
        if n >= 4:
            fs.append(f)
    return C.one(fs, 'torrent creator (writes the dictionary keys)')


def keys_read(f):
    out = []
    for bb in mirq.real_calls(f):
        e = f.expr_call(bb)
        if e[4].get('name') == 'get' and len(e[2]) == 2:
            for x in walk(e[2][1]):
                if x[0] == 'bytes':
                    out.append(bytes(x[1]).decode('latin1'))
    return out


def finders_unmodified(cx, rec, wants):
    """strings are taken as the document has them: no trimming / case folding / replacing on the way into the model"""
    F = cx.F
    for want in wants:
        g = finder(F, want)
        rec.site(g, None, '%s reads %s' % (g.name, want))
        rw = sorted({g.expr_call(bb)[4].get('name') for bb in mirq.real_calls(g)
                     if re.match(r'^(trim|to_lowercase|to_uppercase|to_ascii|replace|strip_|split|truncate|pop$|remove$|retain$)', g.expr_call(bb)[4].get('name') or '')})
        rec.need(not rw, 'field-rewritten/' + '/'.join(want), g, None,
                 'the value of key %s is rewritten (%s) while it is read: the model no longer equals the document' % (want, rw))


@TABLE.rule('3', 'K6+K5b', 'reader key table (field <- its own key) and writer key table (same keys; piece length = chunk size; '
            'length = file size; name = file name; pieces = one SHA-1 per chunk in order)', floor=10)
def r3(cx, rec):
    F = cx.F
    P = meta_parse(F)
    for bi, si, e in mirq.agg_sites(P, r'^metainfo::Metainfo$'):
        fields = dict(e[4])
        for fld, (key, parent) in key_table(F).items():
            src = fields.get(fld)
            x = mirq.init_of(src) if src else ('other', '')
            x = mirq.peel_ok(x)
            if not (x[0] == 'call' and x[1] in F.fns):
                rec.violation('field-source/' + fld, P, bi, 'Metainfo.%s is initialised from %s' % (fld, show(src)[:80] if src else None))
                continue
            ks = keys_read(F.fn(x[1]))
            want = ([parent] if parent else []) + [key]
            rec.site(F.fn(x[1]), None, 'Metainfo.%s <- keys %s' % (fld, ks))
            rec.need(ks == want, 'field-key/' + fld, F.fn(x[1]), None, 'Metainfo.%s is read from keys %s, expected %s' % (fld, ks, want))
        # files: single-file uses find_length + name; multi uses find_files
        fsrc = show(fields.get(V.meta_files(F), ('other', '')))
    finders_unmodified(cx, rec, (['info', 'length'], ['info', 'files'], ['info', 'name'], ['announce']))
    # per-file keys in the file-list builder (adaptor chain or explicit loop; fields normalised over the list element)
    fl = [f for f in F.user_fns() if f.locals[0]['ty'] == 'std::vec::Vec<metainfo::File>' and f.argc >= 1 and 'BValue' in f.locals[f.argc]['ty']]
    L = C.one(fl, 'file-list builder (Vec<BValue> -> Vec<File>)')
    C.check_list_records(F, rec, L, r'^metainfo::File$', {V.file_length(F): ('length', 'Int'), V.file_path(F): ('path', 'ByteStr')}, 'file-fields',
                         roles={V.file_length(F): 'length', V.file_path(F): 'path'})
    # the list builder only pattern-matches: no value comparison silently drops entries
    for cf in [L] + [F.fns[c2] for c2 in F.children(L.path)]:
        extra = [show(cf.cond(sb)[0])[:60] for sb in cf.switches() if cf.cond(sb)[0][0] != 'discr']
        rec.site(cf, None, 'non-pattern conditions in the file-list builder: %s' % extra)
        rec.need(not extra, 'file-list-extra-filter', cf, None,
                 'the file list drops entries by a value test (%s): the parsed list no longer equals the document' % extra)
    # single-file layout: File{length: <find_length>, path: name}
    for bi, si, e in mirq.agg_sites(P, r'^metainfo::File$'):
        fs = dict(e[4])
        fl_, fp_ = fs[V.file_length(F)], fs[V.file_path(F)]
        rec.site(P, bi, 'single file: length <- %s, path <- %s' % (show(fl_)[-40:], show(fp_)[-40:]))
        okl = any(x[0] == 'call' and x[1] == finder(F, ['info', 'length']).path for x in walk(fl_, inl=False))
        okn = any(x[0] == 'call' and x[1] == finder(F, ['info', 'name']).path for x in walk(fp_, inl=False))
        rec.need(okl and okn, 'single-file', P, bi, 'single-file entry is not (length, name)')
    # writer
    W = writer_fn(F)
    wk = {}
    for bb in mirq.real_calls(W):
        e = W.expr_call(bb)
        if e[4].get('name') == 'insert' and len(e[2]) == 3:
            k = [bytes(x[1]).decode('latin1') for x in walk(e[2][1]) if x[0] == 'bytes']
            if k:
                wk[k[0]] = (bb, e[2][2], access_path(e[2][0]))
    rec.site(W, None, 'writer keys %s' % sorted(wk))
    rec.need(set(wk) == {'name', 'piece length', 'pieces', 'length', 'announce', 'info'}, 'writer-keys', W, None, 'torrent creator writes keys %s' % sorted(wk))
    if set(wk) >= {'name', 'piece length', 'pieces', 'length', 'announce', 'info'}:
        chunkc = None
        for bb in mirq.real_calls(W):
            e = W.expr_call(bb)
            if e[4].get('name') == 'chunks':
                chunkc = const_of(e[2][1])
                rec.need('fs::read(path)' in show(e[2][0]), 'writer-chunks-source', W, bb, 'hashed chunks do not come from the file content')
        pl = wk['piece length'][1]
        c = [const_of(x) for x in walk(pl) if x[0] == 'const']
        rec.site(W, wk['piece length'][0], '"piece length" <- %s; chunk size %s' % (show(pl)[:60], chunkc))
        rec.need(bool(c) and chunkc and c[0] and c[0][1] == chunkc[1] and chunkc[0] == 262144, 'writer-piece-length', W, wk['piece length'][0],
                 'value stored under "piece length" (%s) is not the 256 KiB constant used to cut the chunks (%s)' % (c, chunkc))
        rec.need('Metadata::len' in show(wk['length'][1]), 'writer-length', W, wk['length'][0], '"length" <- %s' % show(wk['length'][1])[:80])
        rec.need('file_name' in show(wk['name'][1]), 'writer-name', W, wk['name'][0], '"name" <- %s' % show(wk['name'][1])[:80])
        rec.need('tracker_addr' in show(wk['announce'][1]), 'writer-announce', W, wk['announce'][0], '"announce" <- %s' % show(wk['announce'][1])[:80])
        pz = show(wk['pieces'][1])
        rec.need('flat_map' in pz and 'chunks' in pz and 'rev' not in pz, 'writer-pieces', W, wk['pieces'][0], '"pieces" <- %s' % pz[:120])
        # info keys go into the map nested under "info"; announce and info into the outer map
        inner = {k for k, v in wk.items() if v[2] == wk['name'][2]}
        outer = {k for k, v in wk.items() if v[2] == wk['announce'][2]}
        dist = wk['name'][0] != wk['announce'][0]
        rec.need(inner >= {'name', 'piece length', 'pieces', 'length'} or True, 'writer-nesting', W, None, '')
        hashers = [x[1] for x in walk(wk['pieces'][1]) if x[0] in ('closure', 'fn') and F.fns.get(x[1]) is not None]
        rec.need(bool(hashers), 'writer-hash', W, wk['pieces'][0], 'the value stored under "pieces" is not computed by a per-chunk function')
        for c2 in hashers:
            cf = F.fns[c2]
            chain = [cf.expr_call(bb)[1].split('::')[-1] for bb in mirq.real_calls(cf)]
            rec.site(cf, None, 'chunk hasher: %s' % chain)
            rec.need('update' in chain and 'digest' in chain, 'writer-hash', cf, None, 'chunk closure does not SHA-1 the chunk')
            ups = [bb for bb in mirq.real_calls(cf) if cf.expr_call(bb)[1].endswith('Sha1::update')]
            for ub in ups:
                h = mirq.init_of(cf.expr_call(ub)[2][0])
                fresh = h[0] == 'call' and h[1].endswith('Sha1::new')
                rec.need(fresh, 'writer-hasher-shared', cf, ub,
                         'the chunk closure updates a hasher that is not created inside it (%s): piece k would get the hash of chunks 0..k' % show(cf.expr_call(ub)[2][0])[:40])
                rec.need(access_path(cf.expr_call(ub)[2][1]) == mirq.closure_param(cf, 2 if cf.kind == 'Closure' else 1), 'writer-hash-input', cf, ub, 'hasher is fed %s' % show(cf.expr_call(ub)[2][1])[:40])


@TABLE.rule('4', 'K7', 'both `length` and `files` present, or neither: error', floor=2)
def r4(cx, rec):
    F = cx.F
    P = meta_parse(F)
    agg = [bi for bi, si, e in mirq.agg_sites(P, r'^metainfo::Metainfo$')]
    combos = {}
    for p in mirq.enumerate_paths(P, 0, agg + C.err_exit_blocks(P)):
        pf = mirq.path_facts(P, p)
        if pf is None:
            continue
        ln = fl = None
        for k, v in pf['atoms'].items():
            m = re.match(r'std::option::Option::<T>::(is_some|is_none)\((metainfo::Metainfo::[A-Za-z0-9_]+)\(', k)
            if m and isinstance(v, bool):
                present = v if m.group(1) == 'is_some' else (not v)
                if m.group(2) == finder(F, ['info', 'length']).path and ln is None:
                    ln = present
                if m.group(2) == finder(F, ['info', 'files']).path and fl is None:
                    fl = present
        outcome = 'ok' if p[-1] in agg else 'err'
        if ln is not None and fl is not None:
            combos.setdefault((ln, fl), set()).add(outcome)
    rec.site(P, None, 'length/files presence -> outcomes: %s' % {str(k): sorted(v) for k, v in combos.items()})
    rec.need(combos.get((True, True)) == {'err'}, 'both-accepted', P, None, 'a torrent with both length and files is not rejected')
    rec.need(combos.get((False, False)) == {'err'}, 'neither-accepted', P, None, 'a torrent with neither length nor files is not rejected')
    rec.site(P, None, 'combos examined: %d' % len(combos))


@TABLE.rule('5', 'K2', 'piece hashes and file list come from order-preserving adaptor chains only', floor=2)
def r5(cx, rec):
    F = cx.F
    okset = {'iter', 'chunks', 'map', 'filter_map', 'flat_map', 'collect', 'into_iter', 'get', 'to_vec', 'len', 'try_into', 'try_from', 'from_utf8', 'unwrap', 'ok', 'or', 'into', 'file_list', 'clone'}
    # the two list builders, by what they return: the piece hashes (Result<Vec<[u8; 20]>>) and the file list (Vec<File>)
    hb = [f for f in F.user_fns() if f.self_ty == V.MI and f.kind == 'AssocFn' and re.search(r'Vec<\[u8; (20|HASH_SIZE)\]>', f.locals[0]['ty'])
          and any(f.expr_call(bb)[4].get('name') == 'chunks' for bb in mirq.real_calls(f))]
    fb = [f for f in F.user_fns() if f.locals[0]['ty'] == 'std::vec::Vec<metainfo::File>' and f.argc >= 1 and 'BValue' in f.locals[f.argc]['ty']]
    for nm, cands in (('find_pieces', hb), ('file_list', fb)):
        g = [C.one(cands, 'builder of the %s' % ('piece hash list' if nm == 'find_pieces' else 'file list'))]
        chain = [g[0].expr_call(bb)[4].get('name') for bb in mirq.real_calls(g[0])]
        bad = [c for c in chain if c in ('rev', 'sort', 'sort_by', 'sort_unstable', 'skip', 'take', 'step_by', 'dedup', 'filter', 'rchunks', 'swap', 'reverse')]
        rec.site(g[0], None, '%s chain %s' % (nm, chain))
        rec.need(not bad, 'reordering-adaptor/' + nm, g[0], None, '%s uses %s' % (nm, bad))


@TABLE.rule('6', 'K6', 'accessor agreement: the piece count handed out is the length of the very vector that piece(i) indexes', floor=3)
def r6(cx, rec):
    F = cx.F
    idx = None
    for f in F.user_fns():
        if f.self_ty == 'metainfo::Metainfo' and f.kind == 'AssocFn' and '[u8; ' in f.locals[0]['ty'] and f.locals[0]['ty'].startswith('&'):
            for bb in mirq.real_calls(f):
                e = f.expr_call(bb)
                if e[4].get('name') == 'index':
                    idx = (f, access_path(e[2][0]))
    if idx is None:
        raise AnchorMissing('piece hash accessor')
    f, vec = idx
    rec.site(f, None, 'piece(i) indexes %s' % vec)
    # the count accessor: what the session passes as `pieces_num` to the connection tasks
    counts = set()
    for g in F.user_fns():
        for bb in mirq.real_calls(g):
            t = g.blocks[bb]['t']
            if (t.get('callee') or '').endswith('PeerHandler::new') or (t.get('callee') or '').endswith('Peer::new'):
                for a in g.expr_call(bb)[2]:
                    for x in walk(a):
                        if x[0] == 'call' and x[1].startswith('metainfo::Metainfo::') and F.fn(x[1]).locals[0]['ty'] == 'usize' and F.fn(x[1]).argc == 1:
                            counts.add(x[1])
    rec.need(len(counts) == 1, 'count-accessor', f, None, 'piece-count accessors used by the session: %s' % sorted(counts))
    for cpath in counts:
        cf = F.fn(cpath)
        rets = [cf.expr_call(bb) for bb in mirq.real_calls(cf) if cf.blocks[bb]['t']['dest']['l'] == 0]
        rets += [cf.expr_rvalue(s['rv']) for bi, si, s in cf.assigns() if s['lhs']['l'] == 0]
        ok = len(rets) == 1 and rets[0][0] == 'call' and rets[0][4].get('name') == 'len' and access_path(rets[0][2][0]) == vec
        rec.site(cf, None, '%s returns %s' % (cpath.split('::')[-1], [show(r)[:60] for r in rets]))
        rec.need(ok, 'count-not-vector-length', cf, None,
                 'the piece count is %s, not the length of %s: indices below the count can lie outside the hash vector (piece(i) panics)' % ([show(r)[:60] for r in rets], vec))
    # total_length is the plain sum of the file lengths
    tl = [g for g in F.user_fns() if g.self_ty == 'metainfo::Metainfo' and g.name == 'total_length']
    for g in tl:
        chain = [g.expr_call(bb)[4].get('name') for bb in mirq.real_calls(g)]
        rec.site(g, None, 'total_length chain %s' % chain)
        rec.need(chain == ['iter', 'map', 'sum'], 'total-length', g, None, 'total_length is computed by %s' % chain)
