"""C08 -- only peers of the same torrent (and expected identity) are served.

Decides: (1) Handshake::validate returns Ok only when the received info-hash equals the
expected one and, when an id is expected, the received peer id equals it; the handshake handler
passes its own info-hash/expected id and does everything else on validate's Ok edge; (2) the own
handshake is built from (info_hash, own_id) in that order and the two handler constructors put
own id / expected id / info-hash into the right slots; (3) on an incoming connection nothing is
sent before the validated handshake; (4) typestate gate: every frame arm except Handshake is
reachable only once a flag set on validate's Ok edge is true, so piece data is never sent on a
connection without a valid handshake; (5) handshake errors end the task and the peer is
forgotten."""
import re
import mirq
from mirq import show, access_path, AnchorMissing, const_of, walk
from rulekit import Table
from rules import common as C
from rules import vocab as V
from rules import C07

TABLE = Table('C08')
NOT_DECIDED = ('timing ("sends nothing more" is decided as error propagation to task end, not observed); '
               'a KeepAlive emitted by the 120 s timer on a connection that has not yet sent its '
               'handshake is not treated as a reply.')


def hs_type(F):
    return dict(C07.messages(F))['Handshake']


def validate_fn(F):
    fs = [f for f in C.fns_constructing(F, r'^error::Error$', 'InvalidInfoHash') if not (f.trait or '').endswith('Display')]
    return C.one(fs, 'function constructing Error::InvalidInfoHash')


def neq_scan(F, f, e, param):
    """does boolean expression e mean "own field differs from `param`"?  Accepts
    any(enumerate(iter(self.X)), |(i,b)| *b != param[i]) and ne(self.X, param).
    Returns (field_path, polarity) polarity True = "differs"."""
    if e[0] == 'call' and e[4].get('name') == 'any' and e[2]:
        src = access_path(e[2][0])
        # the scanned iterator must be the whole field: only iter/enumerate adaptors
        x = e[2][0]
        while x[0] in ('call', 'cast'):
            if x[0] == 'call':
                if x[4].get('name') not in ('iter', 'enumerate', 'into_iter', 'copied', 'cloned'):
                    return None
                x = x[2][0]
            else:
                x = x[1]
        clo = [x for x in walk(e) if x[0] == 'closure']
        if not clo or not src:
            return None
        cf = F.fn(clo[0][1])
        for bi, si, s in cf.assigns():
            if s['lhs']['l'] == 0:
                r = cf.expr_rvalue(s['rv'])
                if r[0] == 'binop' and r[1] in ('Ne',):
                    def indexed_param(y):
                        return y[0] == 'call' and y[4].get('name') == 'index' and len(y[2]) == 2 and \
                            show(y[2][0]) in (param, param + '<Some>.0')
                    sides = [r[2], r[3]]
                    if any(indexed_param(y) for y in sides) and any('.1' in show(y) for y in sides if not indexed_param(y)):
                        return src, True
        return None
    if e[0] == 'binop' and e[1] in ('Ne', 'Eq'):
        # explicit loop: `for (i, b) in self.X.iter().enumerate() { if *b != param[i] { return Err } }`
        for a, b in ((e[2], e[3]), (e[3], e[2])):
            if not (a[0] == 'field' and a[2] == '1' and b[0] == 'call' and b[4].get('name') == 'index' and len(b[2]) == 2):
                continue
            elem = a[1]
            bi_, ix_ = b[2]
            if not (ix_[0] == 'field' and ix_[2] == '0' and show(ix_[1]) == show(elem)):
                continue
            if access_path(bi_) not in (param, param + '.<Some>'):
                continue
            nx = [x for x in walk(elem, inl=False) if x[0] == 'call' and x[1] == 'std::iter::Iterator::next']
            if len(nx) != 1:
                continue
            it = mirq.init_of(nx[0][2][0])
            src = access_path(it)
            x = it
            whole = True
            while x[0] in ('call', 'cast'):
                if x[0] == 'call':
                    if x[4].get('name') not in ('iter', 'enumerate', 'into_iter', 'copied', 'cloned'):
                        whole = False
                        break
                    x = x[2][0]
                else:
                    x = x[1]
            if whole and src:
                return src, e[1] == 'Ne', nx[0][3]
    if e[0] == 'call' and e[4].get('name') in ('ne', 'eq') and len(e[2]) == 2:
        a, b = access_path(e[2][0]), access_path(e[2][1])
        if param in (a, b) or (param + '.<Some>') in (a, b):
            other = a if b.startswith(param) else b
            return other, e[4]['name'] == 'ne'
    return None


@TABLE.rule('1', 'K1+K5b', 'validate returns Ok only for an equal info-hash and (when expected) an equal peer id; the '
            'handler passes own hash / expected id and acts only on the Ok edge', floor=3)
def r1(cx, rec):
    F = cx.F
    V = validate_fn(F)
    oks = [bi for bi, si, e in mirq.agg_sites(V, r'^std::result::Result$', 'Ok')]
    params = [v['n'] for v in V.raw['vars'] if 'arg' in v and v['n'] != 'self']
    if len(params) != 2:
        raise AnchorMissing('validate has %d parameters' % len(params))
    hp, ip = params
    got = {}
    edges = {}
    for sb in V.switches():
        e, ts, o = V.cond(sb)
        be = V.bool_edges(sb)
        if not be:
            continue
        for prm in (hp, ip):
            r = neq_scan(F, V, e, prm)
            if r:
                fld, differs = r[0], r[1]
                tt, ff = be
                same_edge = ff if differs else tt
                diff_edge = tt if differs else ff
                if len(r) == 3:
                    # element-wise loop: an Ok exit is covered when it is reached only after the iterator is
                    # exhausted and never from the "differs" edge
                    none_t = [t for s2, t in V.outcome_edges(r[2]).get('none', [])]
                    after = set()
                    for s2, t in V.outcome_edges(r[2]).get('none', []):
                        after |= V.only_via_edge((s2, t)) | {t}
                    bad = V.reach_from(diff_edge)
                    dom = [b for b in oks if b in after and b not in bad] if none_t else []
                else:
                    dom = [b for b in oks if b in V.only_via_edge((sb, same_edge))]
                got.setdefault(prm, []).append((sb, fld, dom))
                if len(r) != 3:
                    edges.setdefault(prm, []).append((sb, fld, same_edge))
                rec.site(V, sb, 'Ok requires %s == %s (dominates %d/%d Ok exits)' % (fld, prm, len(dom), len(oks)))
    h = got.get(hp, [])
    rec.need(bool(h) and any(len(dom) == len(oks) and 'hash' in fld for sb, fld, dom in h), 'validate-hash-not-compared', V, None,
             'validate can return Ok without the received info-hash being equal to the expected one')
    # peer id: on the Some(expected) arm
    some_sw = [sb for sb in V.switches() if V.cond(sb)[0][0] == 'discr' and access_path(V.cond(sb)[0][1]) == ip]
    rec.need(bool(some_sw), 'validate-id-not-inspected', V, None, 'validate never looks at the expected peer id')
    for sb in some_sw:
        ve = V.variant_edges(sb)
        some_oks = [b for b in oks if b in V.only_via_edge((sb, ve['Some']))]
        i = got.get(ip, [])
        okid = any(set(some_oks) <= set(dom) and 'id' in fld for s2, fld, dom in i) and bool(some_oks)
        if not okid:
            # one Ok exit shared by both arms (`if let Some(id) = expected { compare } Ok(())`): from the Some arm every Ok exit
            # is reached only through the "equal" edge of the comparison
            okid = any('id' in fld and not any(b in V.reach_from(ve['Some'], cut_edges=[(s2, same)]) for b in oks)
                       for s2, fld, same in edges.get(ip, []))
        rec.need(okid, 'validate-id-not-compared', V, sb,
                 'with an expected peer id, validate can return Ok without the received id being equal to it')
    # the handler
    for f, bb in C.callers(F, V.path):
        e = f.expr_call(bb)
        a1, a2 = access_path(e[2][1]), access_path(e[2][2])
        rec.site(f, bb, 'validate(%s, %s)' % (a1, a2))
        rec.need(a1 == 'self.info_hash' and a2 == 'self.peer_id', 'validate-args', f, bb,
                 'validate is called with (%s, %s), not with the handler\'s own info-hash and expected peer id' % (a1, a2))
        oe = f.outcome_edges(bb)
        okreg = set()
        for sb, t in oe.get('ok', []):
            okreg |= f.only_via_edge((sb, t)) | {t}
        ok, why = C.error_propagates(f, bb)
        rec.need(ok, 'validate-error-ignored', f, bb, 'a failed validation does not end the handler with an error: ' + why)
        # every other effect (stores to self.*, calls to crate fns) is on the Ok edge
        for bi, si, s in f.stores():
            p = access_path(f.expr_place(s['lhs'])) or ''
            if p.startswith('self.'):
                rec.need(bi in okreg, 'effect-before-validate/store:' + p, f, bi, 'store to %s is reachable without a successful validation' % p)
        for cb, tgt in C.local_calls(F, f):
            if cb != bb and F.is_async(tgt):
                rec.need(cb in okreg, 'effect-before-validate/call:' + tgt, f, cb, '%s is called without a successful validation' % tgt)


@TABLE.rule('2', 'K5b', 'own handshake = (info_hash, own_id); handler constructors fill own id / expected id / info-hash slots correctly', floor=4)
def r2(cx, rec):
    F = cx.F
    ty = hs_type(F)
    newf = C07.impl_method(F, ty, 'new')
    calls = C.callers(F, newf.path)
    rec.need(bool(calls), 'no-own-handshake', newf, None, 'the own handshake is never built')
    for f, bb in calls:
        e = f.expr_call(bb)
        a, b = access_path(e[2][0]), access_path(e[2][1])
        rec.site(f, bb, 'Handshake::new(%s, %s)' % (a, b))
        rec.need(a == 'self.' + V.handler_info_hash(F) and b == 'self.' + V.handler_own_id(F), 'own-handshake-args', f, bb,
                 'own handshake is built from (%s, %s): must be (own torrent\'s info-hash, own peer id)' % (a, b))
    # handler constructor
    hnew = None
    for f in F.user_fns():
        for bi, si, e in mirq.agg_sites(f, r'^peer_handler::PeerHandler$'):
            hnew = (f, bi, e)
    if not hnew:
        raise AnchorMissing('PeerHandler is never built')
    f, bi, e = hnew
    fields = dict(e[4])
    params = [v['n'] for v in f.raw['vars'] if 'arg' in v]
    # each identity slot is filled from the constructor parameter of its own type (own id / expected id / info-hash / count)
    slots = {'own_id': V.handler_own_id(F), 'peer_id': V.handler_expected_id(F), 'info_hash': V.handler_info_hash(F),
             'pieces_num': V.handler_pieces_num(F)}
    ptypes = {n: t for n, l, t in C.params_of(f)}
    ftypes = {fl['name']: fl['ty'] for fl in F.adts['peer_handler::PeerHandler']['variants'][0]['fields']}
    src_of = {}
    for role, slot in slots.items():
        src = access_path(fields.get(slot, ('other', '')))
        src_of[role] = src
        rec.need(src in params and list(src_of.values()).count(src) == 1, 'handler-new/' + role, f, bi,
                 'PeerHandler.%s is initialised from %s (expected: a constructor parameter of its own)' % (slot, src))
    rec.site(f, bi, 'PeerHandler{%s}' % ', '.join('%s<-%s' % (slots[r], src_of[r]) for r in slots))
    for g, bb, cargs in C.ctor_sites(F, f.path):
        args = dict(zip(params, cargs))
        if not all(src_of[r] in args for r in ('own_id', 'info_hash', 'peer_id')):
            continue
        own = access_path(args[src_of['own_id']])
        ih = show(args[src_of['info_hash']])
        pid = args[src_of['peer_id']]
        rec.site(g, bb, 'PeerHandler::new(own_id=%s, peer_id=%s, info_hash=%s)' % (own, show(pid)[:50], ih[:60]))
        rec.need(own == 'self.' + V.session_own_id(F), 'spawn/own-id', g, bb, 'own id slot receives %s' % own)
        rec.need(re.search(r'Metainfo::info_hash\(self\.metainfo\)', ih) is not None, 'spawn/info-hash', g, bb, 'info-hash slot receives %s' % ih[:80])
        okp = (pid[0] == 'agg' and pid[3] == 'None') or (pid[0] == 'agg' and pid[3] == 'Some' and V.session_candidates(F) in show(pid))
        rec.need(okp, 'spawn/peer-id', g, bb, 'expected-id slot receives %s' % show(pid)[:80])


@TABLE.rule('3', 'K1', 'incoming connection: nothing is sent before the validated handshake (own handshake up-front only '
            'when the peer id is known, i.e. outgoing)', floor=2)
def r3(cx, rec):
    F = cx.F
    ty = hs_type(F)
    newf = C07.impl_method(F, ty, 'new')
    senders = {F.owner_fn(f).path for f, bb in C.callers(F, newf.path)}
    V = validate_fn(F)
    handlers = {F.owner_fn(f).path for f, bb in C.callers(F, V.path)}
    D, sbs = C.frame_dispatch(F)
    loop_path = [F.owner_fn(f).path for f, _ in C.callers(F, F.owner_fn(D).path)][0]
    L = F.body(loop_path)
    sels = mirq.select_info(L)
    first_sel = min(s['switch'] for s in sels) if sels else None
    for sp in senders:
        for f, bb in C.callers(F, sp):
            owner = F.owner_fn(f).path
            if owner in handlers:
                oe = f.outcome_edges(C.calls_to_fn(F, f, V.path)[0])
                okreg = set()
                for sb, t in oe.get('ok', []):
                    okreg |= f.only_via_edge((sb, t))
                rec.site(f, bb, 'own handshake sent as a reply, after validation: %s' % (bb in okreg))
                rec.need(bb in okreg, 'reply-before-validate', f, bb, 'own handshake is sent before the peer\'s handshake validated')
            elif owner == loop_path:
                ok = False
                for sb in f.switches():
                    e, ts, o = f.cond(sb)
                    if e[0] == 'discr' and access_path(e[1]) == 'self.peer_id':
                        ve = f.variant_edges(sb)
                        if bb in f.only_via_edge((sb, ve['Some'])):
                            ok = True
                rec.site(f, bb, 'own handshake sent up-front only when the peer id is known: %s' % ok)
                rec.need(ok, 'handshake-sent-to-unknown-peer', f, bb, 'own handshake is sent up-front on a connection whose peer id is unknown (incoming)')
            else:
                rec.violation('handshake-sender/' + owner, f, bb, 'own handshake is sent from an unexpected place')
    # nothing else is sent before the loop starts
    for bb in mirq.real_calls(L):
        c = L.blocks[bb]['t'].get('callee') or ''
        if re.search(r'send_msg|send_frame', c) and first_sel is not None and first_sel in L.reach_from(bb) and bb not in L.reach_from(first_sel):
            rec.violation('send-before-loop', L, bb, 'a message is sent before the select loop starts')


@TABLE.rule('4', 'K1', 'typestate gate: every frame arm except Handshake is reachable only when the handshake-validated flag is '
            'true; the flag becomes true only on validate\'s Ok edge', floor=11)
def r4(cx, rec):
    F = cx.F
    D, sbs = C.frame_dispatch(F)
    V = validate_fn(F)
    # candidate flags: bool fields of self tested in D
    flags = {}
    for sb in D.switches():
        e, ts, o = D.cond(sb)
        neg = False
        while e[0] == 'unop' and e[1] == 'Not':
            neg = not neg
            e = e[2]
        p = access_path(e)
        if p and p.startswith('self.') and D.bool_edges(sb):
            tt, ff = D.bool_edges(sb)
            if neg:
                tt, ff = ff, tt
            flags.setdefault(p, []).append((sb, tt, ff))
    # dispatch switch = the one with >= 8 arms whose arms call handlers
    disp = max(sbs, key=lambda s: len(D.cond(s)[1]))
    ve = D.variant_edges(disp)
    ok_flag = None
    for p, sws in flags.items():
        stores = []
        for f in F.user_fns():
            for bi, si, s in f.stores():
                if access_path(f.expr_place(s['lhs'])) == p:
                    stores.append((f, bi, f.expr_rvalue(s['rv'])))
        true_stores = [(f, bi) for f, bi, e in stores if not (const_of(e) and const_of(e)[0] == 0)]
        good = bool(true_stores)
        for f, bi in true_stores:
            vc = C.calls_to_fn(F, f, V.path)
            if not vc:
                good = False
                continue
            okreg = set()
            for sb, t in f.outcome_edges(vc[0]).get('ok', []):
                okreg |= f.only_via_edge((sb, t)) | {t}
            if bi not in okreg:
                good = False
        if good:
            ok_flag = (p, sws, true_stores)
    if ok_flag is None:
        rec.violation('no-handshake-gate', D, disp,
                      'the frame dispatcher tests no flag that is set only after a successful handshake validation: a peer '
                      'that never sends a (valid) handshake can send Bitfield/Interested/Request and be served')
        return
    p, sws, true_stores = ok_flag
    for f, bi in true_stores:
        rec.site(f, bi, '%s := true on the Ok edge of validate' % p)
    # initial value false
    for f in F.user_fns():
        for bi, si, e in mirq.agg_sites(f, r'^peer_handler::PeerHandler$'):
            init = dict(e[4]).get(p.split('.')[-1])
            rec.need(init is not None and const_of(init) and const_of(init)[0] == 0, 'gate-flag-init', f, bi, '%s does not start false' % p)
    for vname, tgt in ve.items():
        if vname in ('Handshake', '_'):
            continue
        # reachable with the flag false?  cut all true-edges of the flag tests
        cuts = [(sb, tt) for sb, tt, ff in sws]
        r = D.explore(cut_edges=cuts)
        rec.site(D, tgt, 'arm %s reachable with %s == false: %s' % (vname, p, tgt in r))
        rec.need(tgt not in r, 'ungated-arm/' + vname, D, tgt,
                 'frame kind %s is handled although no valid handshake was received' % vname)


@TABLE.rule('5', 'K3', 'handshake errors end the task and the manager forgets the peer', floor=3)
def r5(cx, rec):
    F = cx.F
    V = validate_fn(F)
    for f, bb in C.callers(F, V.path):
        cur = F.owner_fn(f).path
        wrappers = C.peer_task_run(F)
        for depth in range(6):
            cs = C.callers(F, cur)
            if not cs:
                break
            stop = False
            for g, gb in cs:
                if any(t in wrappers for _, t in C.local_calls(F, g)):
                    stop = True
                    continue
                ok, why = C.error_propagates(g, gb)
                rec.site(g, gb, 'error of %s propagates: %s' % (cur.split('::')[-1], ok or why))
                rec.need(ok, 'error-swallowed/' + F.owner_fn(g).path, g, gb, 'an error of %s does not propagate: %s' % (cur, why))
            if stop:
                break
            cur = F.owner_fn(cs[0][0]).path
    C.kill_chain(F, rec, '')
    # protocol string check in Handshake::check
    hc = C07.impl_method(F, hs_type(F), 'check')
    inv = [bi for bi, si, e in mirq.agg_sites(hc, r'^error::Error$', 'InvalidProtocolId')]
    oks = [bi for bi, si, e in mirq.agg_sites(hc, r'^std::result::Result$', 'Ok')]
    cmpb = False
    for sb in hc.switches():
        e, ts, o = hc.cond(sb)
        if e[0] == 'binop' and e[1] in ('Ne', 'Eq') and any(x[0] == 'bytes' and bytes(x[1]) == C07.PROTOCOL for x in walk(e)):
            cmpb = True
            rec.site(hc, sb, 'protocol string compared byte by byte')
    rec.need(cmpb and bool(inv), 'protocol-string-unchecked', hc, None, 'Handshake::check does not compare the protocol string')


@TABLE.rule('6', 'K1', 'announcements on a connection are sent or held back by whether the peer has unchoked us (which it can only have done '
            'after its handshake): the broadcast path never writes unconditionally to a connection (shared with C11)', floor=3)
def r6(cx, rec):
    from rules import C11
    C11.r3(cx, rec)
