"""C01 -- only hash-verified data is ever stored, advertised or assembled.

Decides the gating and ownership clauses on every path of the CFG: (1) a received block is
copied into the assembly buffer only on the `true` edge of the requested-block test, (2) that
test demands the assigned index and an outstanding request matching index, begin and length,
(3,4) the piece file is written only after the hash test succeeded, the hash is taken over the
very buffer that is written and compared with the expected hash, with no write to the buffer in
between, (5) PieceDone is sent only after a successful write, (6,7) the manager marks a piece
Have, broadcasts SendHave and starts extraction only from the PieceDone handler / under the
all-Have guard, (8) a hash mismatch ends the task and the piece becomes Missing again,
(9) the expected hash/length/index of a request all come from the same piece index,
(10) only the piece writer, the torrent creator and the extractor create files."""
import re
import mirq
from mirq import show, access_path, AnchorMissing, const_of, walk
from rulekit import Table
from rules import common as C
from rules import vocab as V

TABLE = Table('C01')
NOT_DECIDED = ('that the copied bytes land inside the buffer (value-level; an out-of-range slice '
               'panics rather than corrupts); SHA-1 itself (sha1_smol trusted); the filesystem.')


def piece_rx_struct(F):
    c = mirq.struct_by_shape(F, lambda fs: any(re.match(r'^\[u8; \w+\]$', t) for t in fs.values())
                             and any(t == 'std::vec::Vec<u8>' for t in fs.values())
                             and sum(1 for t in fs.values() if t.startswith('std::collections::VecDeque<(usize, usize)')) >= 2)
    adt = C.one(c, 'assembly-state struct (hash, buffer, two block queues)')
    fs = {x['name']: x['ty'] for x in F.adts[adt]['variants'][0]['fields']}
    buff = [n for n, t in fs.items() if t == 'std::vec::Vec<u8>'][0]
    hsh = [n for n, t in fs.items() if re.match(r'^\[u8; \w+\]$', t)][0]
    idx = [n for n, t in fs.items() if t == 'usize'][0]
    return adt, buff, hsh, idx


def verify_fn(F):
    fs = [f for f in C.fns_constructing(F, r'^error::Error$', 'PieceHashMismatch')
          if not (f.trait or '').endswith('Display')]
    return C.one(fs, 'function constructing Error::PieceHashMismatch')


def writer_fn(F):
    """the function calling tokio::fs::write / std::fs::write with a `<hash>.piece` name"""
    out = []
    for f in F.user_fns():
        for bb in mirq.real_calls(f):
            t = f.blocks[bb]['t']
            if re.search(r'(^|::)fs::write$', t.get('callee') or ''):
                e = f.expr_call(bb)
                if any(x[0] == 'str' and x[1] == '.piece' for x in walk(e)):
                    out.append((f, bb))
    if len(out) != 1:
        raise AnchorMissing('expected exactly one `.piece` writer, found %d' % len(out))
    return out[0]


def block_handler(F):
    V = verify_fn(F)
    cs = C.callers(F, F.owner_fn(V).path)
    if len(cs) != 1:
        raise AnchorMissing('hash verifier has %d callers' % len(cs))
    return cs[0]


@TABLE.rule('1', 'K1', 'a received block is copied into the assembly buffer only on the true edge of the '
            'requested-block test', floor=2)
def r1(cx, rec):
    F = cx.F
    adt, buff, hsh, idx = piece_rx_struct(F)
    H, vbb = block_handler(F)
    touches = [(bi, si, k) for bi, si, k in mirq.field_touches(H, adt, buff) if k in ('store', 'ref_mut')]
    if not touches:
        raise AnchorMissing('the block handler never writes the assembly buffer')
    # the guard: a call to a crate fn returning bool whose false edge leaves without touching the buffer
    guards = []
    for bb, tgt in C.local_calls(F, H):
        oe = H.outcome_edges(bb)
        if 'true' in oe and F.fn(tgt).locals[0]['ty'] == 'bool':
            guards.append((bb, tgt, oe))
    rec.need(bool(guards), 'no-request-guard', H, None,
             'the block handler writes the assembly buffer without consulting a requested-block test')
    for bi, si, k in touches:
        rec.site(H, bi, 'mutable access to %s.%s' % (adt, buff))
        ok = False
        for gbb, tgt, oe in guards:
            for sb, t in oe['true']:
                if bi in H.only_via_edge((sb, t)):
                    ok = True
        rec.need(ok, 'unguarded-buffer-write', H, bi,
                 'the assembly buffer is written on a path that did not pass the `true` edge of the '
                 'requested-block test')
    for gbb, tgt, oe in guards:
        rec.site(H, gbb, 'guard ' + tgt)


@TABLE.rule('2', 'K7', 'the requested-block test is true only for the assigned index and an outstanding '
            'request equal in index, begin and length', floor=5)
def r2(cx, rec):
    F = cx.F
    adt, buff, hsh, idx = piece_rx_struct(F)
    H, vbb = block_handler(F)
    guards = [(bb, tgt) for bb, tgt in C.local_calls(F, H)
              if 'true' in H.outcome_edges(bb) and F.fn(tgt).locals[0]['ty'] == 'bool']
    if not guards:
        raise AnchorMissing('no requested-block test')
    P = F.body(guards[0][1])
    # every assignment of the return value is `false`, Iterator::any over the requested queue, or `true` behind the
    # per-request predicate inside a loop over the requested queue
    fields_ty = {x['name']: x['ty'] for x in F.adts[adt]['variants'][0]['fields']}
    scans = []   # (anchor block, predicate fn, predicate block, predicate expr)

    def queue_ok(src, bi):
        q = (src or '').split('.')[-1]
        ok = fields_ty.get(q, '').startswith('std::collections::VecDeque')
        rec.need(ok, 'guard-any-source', P, bi, 'the test iterates %s, not a queue of outstanding requests' % src)
        return ok

    def peel(e):
        neg = False
        while True:
            if e[0] == 'unop' and e[1] == 'Not':
                neg = not neg
                e = e[2]
                continue
            if e[0] == 'binop' and e[1] in ('Eq', 'Ne') and e[3][0] == 'const' and e[3][3] == 'bool':
                if (e[1] == 'Eq') != bool(e[3][1]):
                    neg = not neg
                e = e[2]
                continue
            return e, neg

    for bi, b in enumerate(P.blocks):
        if b.get('cleanup'):
            continue
        for s in b['s']:
            if s['k'] == 'assign' and s['lhs']['l'] == 0 and not s['lhs'].get('p'):
                c = const_of(P.expr_rvalue(s['rv']))
                if c is not None and c[0] == 0:
                    continue
                covered = False
                if c is not None and c[0] == 1:
                    for sb in P.switches():
                        ce, neg = peel(P.cond(sb)[0])
                        be = P.bool_edges(sb)
                        if not be or not (ce[0] == 'call' and ce[4].get('name') == 'is_ok'):
                            continue
                        tt, ff = be
                        if neg:
                            tt, ff = ff, tt
                        if bi in P.only_via_edge((sb, tt)) or bi == tt:
                            nx = [x for x in walk(ce, inl=False) if x[0] == 'call' and x[1] == 'std::iter::Iterator::next']
                            its = {show(x) for x in nx}
                            if len(its) == 1:
                                it = mirq.init_of(nx[0][2][0])
                                x = it
                                whole = True
                                while x[0] in ('call', 'cast'):
                                    if x[0] == 'call':
                                        if x[4].get('name') not in ('iter', 'into_iter'):
                                            whole = False
                                            break
                                        x = x[2][0]
                                    else:
                                        x = x[1]
                                src = access_path(it) or ''
                                rec.site(P, sb, 'returns true behind is_ok(..) for an element of %s' % src)
                                if whole and queue_ok(src, sb):
                                    covered = True
                                    scans.append((sb, P, sb, ce))
                rec.need(covered, 'guard-returns-nonfalse', P, bi,
                         'requested-block test returns %s without looking at the outstanding requests'
                         % show(P.expr_rvalue(s['rv']))[:80])
        t = b['t']
        if t['k'] == 'call' and t['dest']['l'] == 0:
            e = P.expr_call(bi)
            if e[4].get('name') in ('any',) and e[2]:
                src = access_path(e[2][0]) or ''
                rec.site(P, bi, 'returns any(%s, closure)' % src)
                queue_ok(src, bi)
                clo = [x for x in walk(e) if x[0] == 'closure']
                if not clo:
                    rec.violation('guard-closure', P, bi, 'predicate of any() is not a closure')
                    continue
                cf = F.fn(clo[0][1])
                rets = []
                for cbi, cb in enumerate(cf.blocks):
                    ct = cb['t']
                    if ct['k'] == 'call' and ct['dest']['l'] == 0 and not cb.get('cleanup'):
                        rets.append((cbi, cf.expr_call(cbi)))
                    for cs in cb['s']:
                        if cs['k'] == 'assign' and cs['lhs']['l'] == 0 and not cb.get('cleanup'):
                            rets.append((cbi, cf.expr_rvalue(cs['rv'])))
                rec.need(len(rets) == 1, 'guard-predicate', cf, None,
                         'predicate of the outstanding-request scan is not `validate(index, begin, length).is_ok()`')
                for cbi, r in rets:
                    scans.append((bi, cf, cbi, r))
            else:
                rec.violation('guard-return-call', P, bi, 'requested-block test returns the result of %s' % show(e)[:80])
    rec.need(bool(scans), 'guard-no-any', P, None, 'requested-block test never consults the outstanding requests')
    # index equality dominates the scan
    for bi, cf, cbi, r in scans:
        ok = False
        for sb in P.switches():
            ce, ts, o = P.cond(sb)
            if ce[0] == 'binop' and ce[1] in ('Eq', 'Ne'):
                a, b = access_path(ce[2]) or '', access_path(ce[3]) or ''
                sides = {a.split('.')[-1], b.split('.')[-1]}
                if idx in sides and any('piece' in (x or '') for x in (a, b)) and a != b:
                    tt, ff = P.bool_edges(sb)
                    eq_edge = tt if ce[1] == 'Eq' else ff
                    if bi in P.only_via_edge((sb, eq_edge)):
                        ok = True
                        rec.site(P, sb, 'index guard %s' % show(ce)[:100])
        rec.need(ok, 'guard-index-not-compared', P, bi,
                 'the outstanding-request scan is reachable without the block\'s index being equal to the assigned index')
        # predicate: is_ok(validate(piece, idx, a.0, a.1))
        okc = False
        if r[0] == 'call' and r[4].get('name') == 'is_ok' and r[2] and r[2][0][0] == 'call' and r[2][0][1] in F.fns:
            v = r[2][0]
            args = v[2]
            rec.site(cf, cbi, 'predicate is_ok(%s)' % show(v)[:140])
            a1 = access_path(args[1]) or ''
            a2 = show(args[2])
            a3 = show(args[3]) if len(args) > 3 else ''
            okc = (a1.split('.')[-1] == idx and a2.endswith('.0') and a3.endswith('.1') and a2[:-2] == a3[:-2])
            rec.need(okc, 'guard-validate-args', cf, cbi,
                     'validate is not given (assigned index, request.begin, request.length): %s' % show(v)[:160])
            validate_semantics(F, F.fn(v[1]), rec)
        rec.need(okc, 'guard-predicate', cf, None,
                 'predicate of the outstanding-request scan is not `validate(index, begin, length).is_ok()`')


def validate_semantics(F, V, rec):
    """Ok is returned only when each of the three parameters was compared for equality with the
    message's own index / begin / payload length"""
    oks = [bi for bi, si, e in mirq.agg_sites(V, r'^std::result::Result$', 'Ok')]
    params = [v['n'] for v in V.raw['vars'] if 'arg' in v and v['n'] != 'self']
    want = {}
    for p in params:
        want[p] = False
    for sb in V.switches():
        ce, ts, o = V.cond(sb)
        if ce[0] == 'binop' and ce[1] in ('Eq', 'Ne'):
            sides = [ce[2], ce[3]]
            names = [access_path(x) if x[0] != 'call' else None for x in sides]
            for i in (0, 1):
                if names[i] in want:
                    other = sides[1 - i]
                    od = show(other)
                    tt, ff = V.bool_edges(sb)
                    eq_edge = tt if ce[1] == 'Eq' else ff
                    if all(b in V.only_via_edge((sb, eq_edge)) for b in oks):
                        # the other side must be the message's matching field
                        p = names[i]
                        role_ok = ('index' in p and 'index' in od) or ('begin' in p and 'begin' in od) or \
                                  ('len' in p and ('len(' in od or 'len' in od.split('.')[-1]))
                        rec.site(V, sb, 'Ok requires %s == %s' % (p, od[:60]))
                        if role_ok and 'self' in od:
                            want[p] = True
    for p, ok in want.items():
        rec.need(ok, 'validate-param-unchecked/' + p, V, None,
                 'Piece::validate can return Ok without `%s` being equal to the corresponding field of the block' % p)


@TABLE.rule('3', 'K1', 'the piece file is written only through the Ok edge of the hash test', floor=2)
def r3(cx, rec):
    F = cx.F
    H, vbb = block_handler(F)
    W, wbb = writer_fn(F)
    wpath = F.owner_fn(W).path
    oe = H.outcome_edges(vbb)
    rec.site(H, vbb, 'hash verification call; outcome edges %s' % sorted(oe))
    rec.need('ok' in oe and 'err' in oe, 'verify-result-unused', H, vbb,
             'the result of the hash verification is not branched on')
    okreg = set()
    for sb, t in oe.get('ok', []):
        okreg |= H.only_via_edge((sb, t))
    wcalls = C.callers(F, wpath)
    rec.need(bool(wcalls), 'writer-unused', W, wbb, 'the piece writer is never called')
    for f, bb in wcalls:
        rec.site(f, bb, 'call of the piece writer')
        rec.need(f.path == H.path and bb in okreg, 'write-before-verify', f, bb,
                 'the piece writer is reachable without passing the Ok edge of the hash verification')
    ok, why = C.error_propagates(H, vbb)
    rec.need(ok, 'verify-error-swallowed', H, vbb, 'hash mismatch does not end the handler with an error: ' + why)


@TABLE.rule('4', 'K7+K5', 'the verifier returns Ok only when SHA1(assembly buffer) == expected hash; the same '
            'buffer is written; nothing writes it in between', floor=3)
def r4(cx, rec):
    F = cx.F
    adt, buff, hsh, idx = piece_rx_struct(F)
    V = verify_fn(F)
    oks = [bi for bi, si, e in mirq.agg_sites(V, r'^std::result::Result$', 'Ok')]
    rec.need(bool(oks), 'verify-never-ok', V, None, 'verifier never returns Ok')
    found = False
    for sb in V.switches():
        ce, ts, o = V.cond(sb)
        neg = False
        x = ce
        while x[0] == 'unop' and x[1] == 'Not':
            neg = not neg
            x = x[2]
        if x[0] == 'call' and x[4].get('name') in ('eq', 'ne') and len(x[2]) == 2:
            a, b = x[2]
            digests = [y for y in (a, b) if any(z[0] == 'call' and re.search(r'Digest::bytes$|::digest$|finalize', z[1]) for z in walk(y))]
            others = [y for y in (a, b) if y not in digests]
            if not digests or not others:
                continue
            exp = access_path(others[0]) or ''
            tt, ff = V.bool_edges(sb)
            eq_edge = tt if (x[4].get('name') == 'eq') != neg else ff
            good_edge = all(bk in V.only_via_edge((sb, eq_edge)) for bk in oks)
            rec.site(V, sb, 'Ok requires digest == %s' % exp)
            rec.need(exp.split('.')[-1] == hsh, 'verify-wrong-expected', V, sb,
                     'digest is compared with %s, not with the expected piece hash' % exp)
            rec.need(good_edge, 'verify-ok-on-mismatch', V, sb,
                     'Ok is reachable without the digest being equal to the expected hash')
            # what was hashed: Sha1::update(hasher, X.buff) exactly once
            ups = [bb for bb in mirq.real_calls(V) if re.search(r'Sha1::update$', V.blocks[bb]['t'].get('callee') or '')]
            rec.need(len(ups) == 1, 'verify-update-count', V, None, 'hasher is fed %d times' % len(ups))
            for ub in ups:
                src = access_path(V.expr_call(ub)[2][1]) or ''
                rec.site(V, ub, 'hashes ' + src)
                rec.need(src.split('.')[-1] == buff, 'verify-wrong-input', V, ub,
                         'the hash is computed over %s, not over the assembly buffer' % src)
            found = True
    rec.need(found, 'verify-no-comparison', V, None, 'no digest == expected-hash comparison guards Ok')
    # the writer writes the same field
    W, wbb = writer_fn(F)
    e = W.expr_call(wbb)
    data = access_path(e[2][1]) or show(e[2][1])
    rec.site(W, wbb, 'writes ' + data[:120])
    rec.need(data.split('.')[-1] == buff, 'writer-wrong-buffer', W, wbb,
             'the piece writer writes %s, not the verified assembly buffer' % data[:120])
    nm = [x for x in walk(e[2][0]) if x[0] == 'call' and x[1].endswith('hash_to_string')]
    src = access_path(nm[0][2][0]) if nm else None
    rec.need(bool(nm) and src and src.split('.')[-1] == hsh, 'writer-wrong-name', W, wbb,
             'the piece file is not named after the expected hash of the assembly state (%s)' % src)
    # no store to the buffer between verify and write in the handler
    H, vbb = block_handler(F)
    wcalls = [bb for f, bb in C.callers(F, F.owner_fn(W).path) if f.path == H.path]
    between = H.reach_from(vbb, cut_blocks=wcalls)
    for bi, si, k in mirq.field_touches(H, adt, buff):
        if k in ('store', 'ref_mut') and bi in between and bi != vbb:
            rec.violation('buffer-modified-after-verify', H, bi,
                          'the assembly buffer is modified between hash verification and write')


@TABLE.rule('5', 'K1+K2', 'PieceDone is sent only after a successful write; nothing else constructs PieceDone', floor=2)
def r5(cx, rec):
    F = cx.F
    H, vbb = block_handler(F)
    W, wbb = writer_fn(F)
    builders = C.fns_constructing(F, r'^commands::PeerCmd$', 'PieceDone')
    B = C.one(builders, 'constructor of PeerCmd::PieceDone')
    bpath = F.owner_fn(B).path
    # which parameter value selects PieceDone
    sel = None
    for bi, si, e in mirq.agg_sites(B, r'^commands::PeerCmd$', 'PieceDone'):
        for sb in B.switches():
            ce, ts, o = B.cond(sb)
            if ce[0] in ('var',) and B.bool_edges(sb):
                tt, ff = B.bool_edges(sb)
                if bi in B.only_via_edge((sb, tt)) or bi == tt:
                    sel = (ce[1], True)
                elif bi in B.only_via_edge((sb, ff)) or bi == ff:
                    sel = (ce[1], False)
        rec.site(B, bi, 'builds PieceDone when %s' % (sel,))
    wcalls = [bb for f, bb in C.callers(F, F.owner_fn(W).path) if f.path == H.path]
    okreg = set()
    for wb in wcalls:
        for sb, t in H.outcome_edges(wb).get('ok', []):
            okreg |= H.only_via_edge((sb, t))
    for f, bb, arg in (C.flag_sites(F, bpath, sel[0]) if sel is not None else [(f, bb, None) for f, bb in C.callers(F, bpath)]):
        e = f.expr_call(bb)
        if sel is not None:
            c = const_of(arg) if arg else None
            if c is None:
                rec.violation('piecedone-nonconstant', f, bb, 'completion flag is not a constant: %s' % show(e)[:100])
                continue
            done = bool(c[0]) == sel[1]
        else:
            done = True
        rec.site(f, bb, 'call %s done=%s' % (bpath.split('::')[-1], done))
        if done:
            rec.need(f.path == H.path and bb in okreg, 'piecedone-before-save', f, bb,
                     'PieceDone can be sent without the piece having been verified and written successfully')


@TABLE.rule('5b', 'K1', 'the piece writer returns Ok only through the Ok edge of its write call (a failed or skipped write is never reported as stored)', floor=1)
def r5b(cx, rec):
    F = cx.F
    W, wbb = writer_fn(F)
    oe = W.outcome_edges(wbb)
    okreg = set()
    for sb, t in oe.get('ok', []):
        okreg |= W.only_via_edge((sb, t)) | {t}
    oks = [bi for bi, si, e in mirq.agg_sites(W, r'^std::result::Result$', 'Ok') if any(s2['k'] == 'assign' and s2['lhs']['l'] == 0 for s2 in W.blocks[bi]['s'])]
    rec.site(W, wbb, 'write call; Ok exits of the writer: %d, all on the Ok edge of the write: %s' % (len(oks), all(b in okreg for b in oks)))
    rec.need('ok' in oe and 'err' in oe, 'write-result-unused', W, wbb, 'the result of the write call is not branched on: a failed write is reported as stored')
    for b in oks:
        rec.need(b in okreg, 'stored-without-write', W, b,
                 'the piece writer can return Ok on a path that did not pass a successful write: PieceDone is sent, the piece is marked Have '
                 'and advertised, but the verified data is not on disk')
    for sb, t in oe.get('err', []):
        r = W.reach_from(t)
        rec.need(not (r & set(oks)), 'write-error-ignored', W, wbb, 'after a failed write the writer can still return Ok')


@TABLE.rule('6', 'K2', 'a fresh Status::Have is stored only in the PieceDone handler (other Have stores are identity rewrites)', floor=5)
def r6(cx, rec):
    F = cx.F
    pf, psbs = C.peer_cmd_dispatch(F)
    tgt, region = C.arm_region(pf, psbs[0], 'PieceDone')
    done_handlers = {t for b, t in C.local_calls(F, pf) if b in region or b == tgt}
    fresh = []
    from rules import C12
    for f in C12.spliced_fns(F):
        for bi, si, le, v in C.status_stores(f, 'Have'):
            s = f.blocks[bi]['s'][si]
            e = f.expr_rvalue(s['rv'])
            if e[0] == 'phi':
                # identity rewrite: the Have alternative is built only under `element is Have`
                op = s['rv']['op']
                p = op.get('mv') or op.get('cp')
                ok = True
                for d in f.defs(p['l']):
                    de = f._expr_def(d, frozenset())
                    if de[0] == 'agg' and de[3] == 'Have':
                        okd = False
                        for sb in f.switches():
                            ce, ts, o = f.cond(sb)
                            if ce[0] == 'discr' and ce[2].endswith('session::Status'):
                                ve = f.variant_edges(sb)
                                elem = ce[1]
                                same = (elem[0] == 'call' and le[0] == 'call' and
                                        [access_path(x) for x in elem[2]] == [access_path(x) for x in le[2]])
                                if same and 'Have' in ve and (d[1] in f.only_via_edge((sb, ve['Have'])) or d[1] == ve['Have']):
                                    okd = True
                        ok = ok and okd
                rec.site(f, bi, 'Have in a match rewrite of %s: identity=%s' % (show(le)[:60], ok))
                if not ok:
                    fresh.append((f, bi))
            else:
                rec.site(f, bi, 'fresh Status::Have store into %s' % show(le)[:60])
                fresh.append((f, bi))
    rec.need(bool(fresh), 'no-have-store', pf, None, 'nothing ever marks a piece as Have')
    for f, bi in fresh:
        rec.need(F.owner_fn(f).path in done_handlers, 'have-store-outside-piecedone/' + F.owner_fn(f).path, f, bi,
                 'a piece is marked Have outside the PieceDone handler (i.e. without a verified, stored piece)')
    # the vector is initialised all-Missing
    for f in F.user_fns():
        for bi, si, e in mirq.agg_sites(f, r'^session::Session$'):
            for n, x in e[4]:
                if 'status' in n:
                    okm = any(y[0] == 'agg' and y[2] == 'session::Status' and y[3] == 'Missing' for y in walk(x))
                    rec.site(f, bi, 'initial statuses: %s' % show(x)[:80])
                    rec.need(okm, 'status-init', f, bi, 'initial piece statuses are not all Missing')


@TABLE.rule('7', 'K1', 'SendHave is broadcast only from the PieceDone handler, after the Have store, with the same '
            'index; the extractor is started only when every status is Have', floor=2)
def r7(cx, rec):
    F = cx.F
    pf, psbs = C.peer_cmd_dispatch(F)
    tgt, region = C.arm_region(pf, psbs[0], 'PieceDone')
    done_handlers = {t for b, t in C.local_calls(F, pf) if b in region or b == tgt}
    builders = C.fns_constructing(F, r'^commands::BroadCmd$', 'SendHave')
    rec.need(bool(builders), 'no-sendhave', pf, None, 'SendHave is never broadcast')
    for f in builders:
        for bi, si, e in mirq.agg_sites(f, r'^commands::BroadCmd$', 'SendHave'):
            rec.site(f, bi, show(e)[:120])
            rec.need(F.owner_fn(f).path in done_handlers, 'sendhave-outside-piecedone/' + F.owner_fn(f).path, f, bi,
                     'SendHave is built outside the PieceDone handler')
            stores = [(b, le) for b, s2, le, v in C.status_stores(f, 'Have')]
            ok = False
            for b, le in stores:
                idx_store = access_path(le[2][1]) if le[0] == 'call' and len(le[2]) > 1 else None
                idx_cmd = access_path(dict(e[4]).get('piece_index', ('other', '')))
                if idx_store and idx_store == idx_cmd and (bi in f.only_via_block(b) or bi == b):
                    ok = True
            rec.need(ok, 'sendhave-before-store', f, bi,
                     'SendHave is not preceded by the Have store of the same piece index')
    # extractor spawn
    spawns = [f for f in F.user_fns() if any((f.blocks[bb]['t'].get('callee') or '').endswith('Extractor::new') for bb in mirq.real_calls(f))]
    rec.need(bool(spawns), 'no-extractor-spawn', pf, None, 'the extractor is never created')
    for sf in spawns:
        spath = F.owner_fn(sf).path
        for f, bb in C.callers(F, spath):
            ok = False
            for sb in f.switches():
                ce, ts, o = f.cond(sb)
                x = C.through_helper(ce)
                if x[0] == 'call' and x[4].get('name') == 'all':
                    clo = [y for y in walk(x) if y[0] == 'closure']
                    src = access_path(x[2][0]) or ''
                    pred_ok = False
                    if clo:
                        cf = F.fn(clo[0][1])
                        for cbi, b in enumerate(cf.blocks):
                            t = b['t']
                            if t['k'] == 'call' and t['dest']['l'] == 0:
                                r = cf.expr_call(cbi)
                                if r[4].get('name') == 'eq' and any(y[0] == 'agg' and y[3] == 'Have' for y in walk(r)):
                                    pred_ok = True
                    tt, ff = f.bool_edges(sb)
                    if pred_ok and V.is_status_seq(f, x[2][0][2][0] if x[2][0][0] == 'call' and x[2][0][2] else x[2][0]) and (bb in f.only_via_edge((sb, tt))):
                        ok = True
                        rec.site(f, bb, 'extractor started under all(%s == Have)' % src)
            rec.need(ok, 'extract-without-all-have', f, bb,
                     'the extractor can be started while some piece is not Have')


@TABLE.rule('8', 'K3+K1', 'a hash mismatch ends the peer task (error propagates to KillReq) and the manager makes a '
            'non-Have piece of the dead peer Missing again', floor=5)
def r8(cx, rec):
    F = cx.F
    H, vbb = block_handler(F)
    # propagate up: H -> dispatcher -> event loop
    cur = F.owner_fn(H).path
    wrappers = C.peer_task_run(F)
    for depth in range(6):
        cs = C.callers(F, cur)
        if not cs:
            rec.violation('handler-unreachable/' + cur, H, None, '%s is never called' % cur)
            break
        stop = False
        for f, bb in cs:
            sends_kill = any(t in wrappers for _, t in C.local_calls(F, f))
            if sends_kill:
                rec.site(f, bb, 'task wrapper reached: result of %s is turned into KillReq' % cur.split('::')[-1])
                stop = True
                continue
            ok, why = C.error_propagates(f, bb)
            rec.site(f, bb, 'error of %s propagates: %s' % (cur.split('::')[-1], ok or why))
            rec.need(ok, 'error-swallowed/' + F.owner_fn(f).path, f, bb,
                     'an error of %s does not propagate: %s' % (cur, why))
        if stop:
            break
        cur = F.owner_fn(cs[0][0]).path
    C.kill_chain(F, rec, '')


@TABLE.rule('9', 'K5b', 'expected hash, length and index of a request come from the same piece index; the assembly '
            'state copies them from that request', floor=2)
def r9(cx, rec):
    F = cx.F
    adt, buff, hsh, idx = piece_rx_struct(F)
    builders = C.fns_constructing(F, r'^commands::ReqData$', 'ReqData')
    B = C.one(builders, 'constructor of ReqData')
    for bi, si, e in mirq.agg_sites(B, r'^commands::ReqData$'):
        fields = dict(e[4])
        i = access_path(fields.get('piece_index', ('other', '')))
        rec.site(B, bi, show(e)[:200])
        for n, x in fields.items():
            if n == 'piece_index':
                continue
            ok = x[0] == 'call' and len(x[2]) == 2 and access_path(x[2][1]) == i and x[1].startswith('metainfo::Metainfo::')
            want = 'piece_length' if 'length' in n else 'piece'
            ok = ok and x[1].split('::')[-1] == want
            rec.need(ok, 'reqdata-field/' + n, B, bi, 'ReqData.%s is %s, not metainfo.%s(%s)' % (n, show(x)[:80], want, i))
        rec.need(i is not None and i in [v['n'] for v in B.raw['vars'] if 'arg' in v], 'reqdata-index', B, bi,
                 'ReqData.piece_index is not the function\'s index parameter')
    # PieceRx::new copies hash/index from its ReqData and sizes the buffer by piece_length
    news = [f for f in F.user_fns() if mirq.agg_sites(f, '^' + re.escape(adt) + '$')]
    for f in news:
        for bi, si, e in mirq.agg_sites(f, '^' + re.escape(adt) + '$'):
            fields = dict(e[4])
            rec.site(f, bi, 'assembly state built: hash<-%s index<-%s' % (access_path(fields[hsh]), access_path(fields[idx])))
            rec.need((access_path(fields[hsh]) or '').split('.')[-1] == V.reqdata_hash(F), 'piecerx-hash', f, bi, 'expected hash is not taken from the request data')
            rec.need((access_path(fields[idx]) or '').endswith('piece_index'), 'piecerx-index', f, bi, 'assigned index is not taken from the request data')
            bl = [y for y in walk(fields[buff]) if y[0] in ('var', 'field') and (access_path(y) or '').endswith('piece_length')]
            rec.need(bool(bl), 'piecerx-buffer-size', f, bi, 'assembly buffer is not sized by the request\'s piece length')


@TABLE.rule('10', 'K2', 'file-creating calls in the crate are exactly: piece writer, torrent creator, extractor', floor=3)
def r10(cx, rec):
    F = cx.F
    W, wbb = writer_fn(F)
    allowed = {F.owner_fn(W).path}
    sinks = r'(^|::)fs::(write|rename|copy|remove_file|remove_dir|remove_dir_all|create_dir|create_dir_all)$|File::create$|OpenOptions::open$|File::options$|File::create_new$'
    for f in F.user_fns():
        for bb in mirq.real_calls(f):
            c = f.blocks[bb]['t'].get('callee') or ''
            if re.search(sinks, c):
                owner = F.owner_fn(f).path
                rec.site(f, bb, c)
                okk = owner in allowed or owner.startswith('extractor::') or owner == 'metainfo::Metainfo::create_file'
                rec.need(okk, 'new-file-sink/' + owner, f, bb, 'unexpected file-creating call %s in %s' % (c, owner))


@TABLE.rule('11', 'K7', 'a piece is served only when its status is Have (shared with C09): the upload path never reads an unverified piece file', floor=4)
def r11(cx, rec):
    from rules import C09
    C09.r5(cx, rec)


@TABLE.rule('13', 'K1', 'a new assignment starts from an empty assembly buffer (shared with C10): the previous piece\'s blocks never '
            'remain in the buffer that is verified and stored for the new piece', floor=1)
def r13(cx, rec):
    from rules import C10
    C10.fresh_assignment(cx, rec)
    C10.cancel_clears_state(cx, rec)


@TABLE.rule('12', 'K8', 'the manager\'s record of what a peer is fetching (Peer.piece_index) changes to Some(i) only together with a request for i, '
            'or in the follow-up of PieceDone/PieceCancel; every request for i is recorded', floor=4)
def r12(cx, rec):
    from rules import C12
    F = cx.F
    pf, psbs = C.peer_cmd_dispatch(F)
    follow = set()
    for v in ('PieceDone', 'PieceCancel'):
        tgt, region = C.arm_region(pf, psbs[0], v)
        for b, t in C.local_calls(F, pf):
            if b in region or b == tgt:
                follow.add(t)
    for f in C12.handlers(F):
        exempt = bool(C.callers(F, f.path)) and all(F.owner_fn(g).path in follow for g, gb in C.callers(F, f.path))
        for p, pf2 in C12.paths_of(f):
            recs = C12.record_events(f, p)
            ret = mirq.value_on_path(f, p, 0)
            reqs = [C12.norm_idx(access_path(x[2][1])) for x in walk(ret) if x[0] == 'call' and x[1] == C12.reqdata_builder(F).path]
            for r, rb in recs:
                if r == 'None':
                    continue
                idx = C12.norm_idx(r.split(':', 1)[1])
                if r.startswith('opt:'):
                    # piece_index := chosen (Option): request iff Some -- checked through the returned command below
                    somep = any(k.startswith('discr(%s)' % r.split(':', 1)[1]) and v == 'Some' for k, v in pf2['atoms'].items())
                    if not somep:
                        continue
                okr = idx in reqs
                rec.site(f, rb, 'piece_index := %s; request for it in the returned command: %s; PieceDone/Cancel follow-up: %s' % (r, okr, exempt))
                rec.need(okr or exempt, 'record-without-request/' + f.path, f, rb,
                         'the manager records that the peer is fetching piece %s although no request for it is returned to the connection task: '
                         'the task keeps assembling another piece, and its PieceDone will mark the wrong piece as Have' % idx)
            for q in reqs:
                okq = any(r != 'None' and C12.norm_idx(r.split(':', 1)[1]) == q for r, rb in recs)
                rec.need(okq, 'request-without-record/' + f.path, f, p[-1],
                         'a request for piece %s is returned without recording it in piece_index: its PieceDone will be attributed to another piece' % q)
