"""C19 -- tracker replies are read faithfully and tracker faults are survived.

Decides: (1) panic-site audit of the reply parser and of peers(); (2) a reply value is built only
when no failure reason was found, a failure reason yields Error::TrackerRespFail; (3) the keys
read are interval / peers / failure reason / ip / peer id / port, peers() pairs ip:port with the
same entry's id, in list order, malformed entries are skipped (filter_map), never unwrapped;
(4) wait-for: the manager awaits a task's JoinHandle only when handling a message that is
terminal in that task (tracker: only the successful reply; extractor: both; peer: KillReq);
(5) retry shape: only a good reply leaves the announce loop, a failure is reported, followed by a
sleep and another attempt; on a good reply the manager adds the peers to its candidates and starts
connecting."""
import re
import mirq
from mirq import show, access_path, AnchorMissing, const_of, walk
from rulekit import Table
from rules import common as C
from rules import vocab as V

TABLE = Table('C19')
NOT_DECIDED = 'time, HTTP, sockets; what reqwest does on the wire.'

ALLOW = {
}


def resp_parse(F):
    fs = [f for f in C.fns_constructing(F, r'^error::Error$', 'TrackerRespFail') if not (f.trait or '').endswith('Display')]
    fs = [f for f in fs if mirq.agg_sites(f, r'^tracker_resp::TrackerResp$')]
    return C.one(fs, 'function building TrackerResp / TrackerRespFail')


@TABLE.rule('1', 'K4', 'panic-site audit of TrackerResp::from_bencode and TrackerResp::peers (whole call graph incl. the bencode decoder)', floor=1)
def r1(cx, rec):
    F = cx.F
    roots = [f.path for f in F.user_fns() if f.self_ty == 'tracker_resp::TrackerResp' and f.name in ('from_bencode', 'peers')]
    if len(roots) != 2:
        raise AnchorMissing('TrackerResp::from_bencode / peers')
    a = C.Audit(F, roots, ALLOW)
    fns, n = a.run(rec)
    rec.site(F.fn(roots[0]), None, '%d functions reachable, %d panic-capable sites' % (len(fns), n))


@TABLE.rule('2', 'K1', 'a reply is accepted only when it carries no failure reason; a failure reason is reported as TrackerRespFail', floor=2)
def r2(cx, rec):
    F = cx.F
    # the finder of the failure reason and the function that tests its result
    finders = [g for g in F.user_fns() if any(x[0] == 'bytes' and bytes(x[1]) == b'failure reason'
                                              for bb in mirq.real_calls(g) for x in walk(g.expr_call(bb), inl=False))]
    G = C.one(finders, 'reader of the "failure reason" key')
    tests = []
    for f in F.user_fns():
        for sb in f.switches():
            e, ts, o = f.cond(sb)
            if e[0] == 'discr' and e[1][0] == 'call' and e[1][1] == G.path:
                tests.append((f, sb))
    if not tests:
        raise AnchorMissing('nobody tests the result of %s' % G.path)
    P = tests[0][0]
    rec.need(all(f.path == P.path for f, sb in tests), 'failure-test-scattered', P, None, 'the failure reason is tested in several functions')
    key = show(P.cond(tests[0][1])[0])
    rec.site(P, tests[0][1], 'failure reason inspected (%s)' % G.path)
    rets = P.return_blocks()
    n_ok = n_fail = 0
    for p in mirq.enumerate_paths(P, 0, rets):
        if p[-1] not in rets:
            continue
        pf = mirq.path_facts(P, p)
        if pf is None:
            continue
        ret = mirq.value_on_path(P, p, 0)
        is_err = (ret[0] == 'agg' and ret[3] == 'Err') or (ret[0] == 'call' and ret[1].endswith('from_residual'))
        reason = pf['atoms'].get(key)
        if not is_err:
            n_ok += 1
            rec.need(reason == 'None', 'reply-accepted-despite-failure', P, p[-1],
                     'the parser can return a reply (%s) on a path where the failure reason is %s: a reply that carries a failure reason '
                     'must be reported as TrackerRespFail' % (show(ret)[:60], reason or 'not inspected'))
        if reason == 'Some':
            n_fail += 1
            is_fail = is_err and ret[0] == 'agg' and any(x[0] == 'agg' and x[3] == 'TrackerRespFail' for x in walk(ret))
            rec.need(is_fail, 'failure-not-reported', P, p[-1], 'with a failure reason present the parser returns %s, not Error::TrackerRespFail' % show(ret)[:80])
            if is_fail:
                rec.site(P, p[-1], show(ret)[:120])
    rec.need(n_ok >= 1 and n_fail >= 1, 'failure-paths', P, None, 'accepting paths: %d, failure-reason paths: %d' % (n_ok, n_fail))


@TABLE.rule('3', 'K6', 'keys interval/peers/failure reason/ip/peer id/port; peers() = ip:port paired with the same entry\'s id in list '
            'order; malformed entries skipped, not unwrapped', floor=6)
def r3(cx, rec):
    F = cx.F
    keys = {}
    for f in F.user_fns():
        if not f.path.startswith('tracker_resp::'):
            continue
        for bb in mirq.real_calls(f):
            e = f.expr_call(bb)
            if e[4].get('name') == 'get':
                for x in walk(e[2][1]):
                    if x[0] == 'bytes':
                        keys.setdefault(bytes(x[1]).decode('latin1'), []).append((f, bb))
    for k in ('interval', 'peers', 'failure reason', 'ip', 'peer id', 'port'):
        rec.need(k in keys, 'key-missing/' + k, 'tracker_resp', None, 'the reply parser never reads the key "%s"' % k)
        for f, bb in keys.get(k, [])[:1]:
            rec.site(f, bb, 'reads key "%s"' % k)
    extra = set(keys) - {'interval', 'peers', 'failure reason', 'ip', 'peer id', 'port'}
    rec.need(not extra, 'key-unknown', 'tracker_resp', None, 'unexpected keys read: %s' % sorted(extra))
    # field <- key agreement in the PeerAddr records (adaptor chain or explicit loop; fields normalised over the list element)
    lf = [f for f in F.user_fns() if f.locals[0]['ty'] == 'std::vec::Vec<tracker_resp::PeerAddr>' and f.argc >= 1 and 'BValue' in f.locals[f.argc]['ty']]
    L = C.one(lf, 'peer list builder (Vec<BValue> -> Vec<PeerAddr>)')
    PA = 'tracker_resp::PeerAddr'
    f_ip = V.field(F, PA, r'^std::string::String$', 'peer address host')
    f_id = V.field(F, PA, r'^\[u8; (HASH_SIZE|PEER_ID_SIZE)\]$', 'peer address id')
    f_port = V.field(F, PA, r'^u64$', 'peer address port')
    C.check_list_records(F, rec, L, r'^tracker_resp::PeerAddr$',
                         {f_ip: ('ip', 'ByteStr'), f_id: ('peer id', 'ByteStr'), f_port: ('port', 'Int')}, 'peeraddr',
                         roles={f_ip: 'ip', f_id: 'peer_id', f_port: 'port'})
    # peers(): map over self.peers producing (ip + ":" + port, peer_id)
    pf = [f for f in F.user_fns() if f.self_ty == 'tracker_resp::TrackerResp' and f.name == 'peers']
    P = C.one(pf, 'TrackerResp::peers')
    chain = [P.expr_call(bb)[4].get('name') for bb in mirq.real_calls(P)]
    rec.site(P, None, 'adaptor chain %s' % chain)
    bad = [c for c in chain if c in ('rev', 'sort', 'sort_by', 'skip', 'take', 'filter', 'step_by', 'dedup')]
    # loop form: `for p in self.peers.iter() { out.push((addr, id)) }` with one unconditional push per entry, nothing else growing
    nxt = [bb for bb in mirq.real_calls(P) if P.expr_call(bb)[4].get('name') == 'next']
    psh = [bb for bb in mirq.real_calls(P) if P.expr_call(bb)[4].get('name') == 'push']
    grow = [c for c in chain if c in ('insert', 'extend', 'extend_from_slice', 'append', 'push_front', 'swap', 'remove', 'pop', 'truncate', 'retain', 'clear', 'reverse')]
    loop_form = len(nxt) == 1 and len(psh) == 1 and not grow and 'map' not in chain and \
        not any(nxt[0] in P.reach_from(s2, cut_blocks=psh) for s2 in P.succs(nxt[0])) and psh[0] not in (P.reach_from(psh[0], cut_blocks=nxt) - {psh[0]})
    rec.need(not bad and ('map' in chain or loop_form) and 'iter' in chain, 'peers-order', P, None, 'peers() reorders or drops entries: %s' % (bad + grow))
    pushed = show(P.expr_call(psh[0])[2][1]) if loop_form else None
    for cf in [F.fns[c] for c in F.children(P.path)] + ([P] if loop_form else []):
        for bi, si, s in cf.assigns():
            if cf is P and s['rv']['k'] == 'agg' and s['rv'].get('ak') == 'tuple' and show(cf.expr_rvalue(s['rv'])) != pushed:
                continue
            if (s['lhs']['l'] == 0 or cf is P) and s['rv']['k'] == 'agg' and s['rv'].get('ak') == 'tuple':
                x = cf.expr_rvalue(s['rv'])
                a, b = x[4][0][1], x[4][1][1]
                sa = show(a)
                d_ip, d_port = '.' + f_ip, '.' + f_port
                okk = d_ip in sa and '":"' in sa and d_port in sa and sa.index(d_ip) < sa.index('":"') < sa.index(d_port)
                ent_a = {show(y[1]) for y in walk(a) if y[0] == 'field' and y[2] in (f_ip, f_port)}
                pb = access_path(b) or ''
                ent_b = show(b[1]) if b[0] == 'field' else None
                rec.site(cf, bi, 'yields (%s, %s)' % (sa[-70:], pb))
                rec.need(okk, 'peers-address-format', cf, bi, 'address is not ip + ":" + port: %s' % sa[-100:])
                rec.need(pb.endswith('.' + f_id) and len(ent_a) == 1 and ent_b in ent_a, 'peers-id-pairing', cf, bi, 'id %s is not taken from the same entry as the address' % pb)
    # malformed entries are skipped, not unwrapped: no panic-capable construct in the list builder or its closures
    for cf in [L] + [F.fns[c2] for c2 in F.children(L.path)]:
        for kind, pb, ops in mirq.panic_sites(cf):
            if kind in ('unwrap', 'expect', 'index', 'bounds', 'panic'):
                rec.violation('peerlist-panics/' + kind, cf, pb, 'the peer list builder can panic (%s) on a malformed entry instead of skipping it' % kind)
    rec.site(L, None, 'peer list builder: no unwrap/expect/index')


def joiners(F):
    """{fn_path: job_access_path} for functions that await a JoinHandle stored in a field"""
    out = {}
    jobs = {fl['name'] for a in F.adts.values() if a['kind'] == 'Struct' for fl in a['variants'][0]['fields'] if 'JoinHandle' in fl['ty']}
    for f in F.user_fns():
        for sb in f.switches():
            e, ts, o = f.cond(sb)
            if e[0] == 'discr' and 'Poll' in e[2] and e[1][0] == 'call' and e[1][1] == 'poll':
                p = access_path(e[1][2][0]) or ''
                if set(re.split(r'[^A-Za-z0-9_]+', p)) & jobs:
                    out[F.owner_fn(f).path] = p
    return out


def sends_after(F, f, bb, enum_rx):
    """blocks after call bb (in f) that build a variant of the enum or call a fn that does"""
    r = f.reach_from(bb) - {bb}
    hits = []
    builders = {F.owner_fn(g).path for g in F.user_fns() if mirq.agg_sites(g, enum_rx)}
    for b2 in r:
        for bi, si, e in mirq.agg_sites(f, enum_rx):
            if bi == b2:
                hits.append(b2)
    for b2, tgt in C.local_calls(F, f):
        if b2 in r and b2 != bb and tgt in builders:
            hits.append(b2)
    return hits


@TABLE.rule('4', 'K9', 'wait-for: a task\'s JoinHandle is awaited only while handling a message that is terminal in that task', floor=5)
def r4(cx, rec):
    F = cx.F
    J = joiners(F)
    jobf = V.field(F, 'session::Job', r'JoinHandle', 'join handle of a manager-owned task')
    inst = [
        ('tracker', r'^commands::TrackerCmd$', '%s.%s' % (V.session_tracker(F), jobf)),
        ('extractor', r'^commands::ExtractorCmd$', '%s.%s' % (V.session_extractor(F), jobf)),
    ]
    for label, enum_rx, jobpath in inst:
        jf = [p for p, jp in J.items() if jobpath in jp]
        if len(jf) != 1:
            raise AnchorMissing('joiner of %s: %s' % (jobpath, jf))
        jf = jf[0]
        # terminal variants in the sender task
        terminal = {}
        for g in F.user_fns():
            for bi, si, e in mirq.agg_sites(g, enum_rx):
                if g.path.startswith('session::'):
                    continue
                # the send call receiving this aggregate
                sends = [bb for bb in mirq.real_calls(g) if any(x == e for x in walk(g.expr_call(bb))) and bb in g.reach_from(bi) | {bi}]
                sb = sends[0] if sends else bi
                after = sends_after(F, g, sb, enum_rx)
                terminal[e[3]] = terminal.get(e[3], True) and not after
                rec.site(g, bi, '%s::%s sent; further sends possible afterwards: %s' % (label, e[3], bool(after)))
        if not terminal:
            raise AnchorMissing('no sender of %s' % enum_rx)
        # manager: where is the joiner called
        for f, bb in C.callers(F, jf):
            sws = [sb for sb in f.switches() if f.cond(sb)[0][0] == 'discr' and re.search(enum_rx.strip('^$'), f.cond(sb)[0][2])]
            if not sws:
                rec.violation('join-outside-dispatch/' + label, f, bb, '%s is awaited outside a dispatch on %s' % (jf, enum_rx))
                continue
            sw = sws[0]
            ve = f.variant_edges(sw)
            allowed = [v for v in ve if v != '_' and terminal.get(v)]
            arms = [v for v in ve if v != '_' and (bb in f.reach_from(ve[v], cut_blocks=[sw]) or bb == ve[v])]
            rec.site(f, bb, 'await of the %s task reachable from arms %s; terminal messages: %s' % (label, arms, sorted(k for k, v in terminal.items() if v)))
            for v in arms:
                rec.need(terminal.get(v, False), 'join-after-nonterminal/%s/%s' % (label, v), f, bb,
                         'the manager awaits the %s task\'s JoinHandle after %s, but the task keeps running (and sending) after that '
                         'message: the manager blocks and serves no peer, timer or listener until the task ends; once the bounded '
                         'channel fills both sides are deadlocked' % (label, v))
    # peers: kill_peer only from the KillReq arm; KillReq is the task's last message
    others = (V.session_tracker(F), V.session_extractor(F), V.field(F, 'session::Session', r'session::View', 'view task'))
    pj = [p for p, jp in J.items() if not any(('.%s.' % o) in ('.' + jp + '.') for o in others)]
    pj = [p for p in pj if p in C.peer_removers(F)]
    rec.need(len(pj) == 1, 'peer-joiner', 'session', None, 'peer task joiner not found uniquely: %s' % pj)
    pf, psbs = C.peer_cmd_dispatch(F)
    ktgt, kregion = C.arm_region(pf, psbs[0], 'KillReq')
    for p in pj:
        seen = set()
        work = [p]
        roots = []
        while work:
            cur = work.pop()
            for f, bb in C.callers(F, cur):
                owner = F.owner_fn(f).path
                if f.path == pf.path:
                    rec.site(f, bb, 'peer joiner chain reaches the dispatcher in arm KillReq: %s' % (bb in kregion or bb == ktgt))
                    rec.need(bb in kregion or bb == ktgt, 'join-peer-outside-killreq', f, bb, 'a peer task is awaited while handling a message other than KillReq')
                elif owner not in seen:
                    seen.add(owner)
                    work.append(owner)
    for kp in C.peer_task_run(F):
        for f, bb in C.callers(F, kp):
            after = [b2 for b2, tgt in C.local_calls(F, f) if b2 in f.reach_from(bb) and b2 != bb]
            rec.site(f, bb, 'KillReq sent; crate calls afterwards: %d' % len(after))
            rec.need(not after, 'killreq-not-last', f, bb, 'the peer task does more work after sending KillReq (the manager is already awaiting it)')


@TABLE.rule('5', 'K1', 'retry shape: only a good reply leaves the announce loop; a failure is reported, then sleep(DELAY_MS), then again; the manager '
            'adds the reply\'s peers to its candidates and spawns connecting peer tasks', floor=4)
def r5(cx, rec):
    F = cx.F
    T = None
    for g in F.user_fns():
        if mirq.agg_sites(g, r'^commands::TrackerCmd$') and not g.path.startswith('session::'):
            T = g
    if T is None:
        raise AnchorMissing('tracker task')
    req = [bb for bb in mirq.real_calls(T) if (T.blocks[bb]['t'].get('callee') or '').endswith('RequestBuilder::send')]
    rec.need(len(req) == 1, 'no-request', T, None, 'announce request not found')
    rb = req[0]
    rec.need(rb in T.reach_from(rb) - set() and any(rb in T.reach_from(s) for s in T.succs(rb)), 'no-retry-loop', T, rb, 'the announce request is not inside a loop')
    for bi, si, e in mirq.agg_sites(T, r'^commands::TrackerCmd$'):
        loops_back = rb in T.reach_from(bi)
        rec.site(T, bi, '%s -> request repeated afterwards: %s' % (e[3], loops_back))
        if e[3] == 'Fail':
            rec.need(loops_back, 'fail-does-not-retry', T, bi, 'after a failed announce the task does not try again')
            sl = [bb for bb in mirq.real_calls(T) if (T.blocks[bb]['t'].get('callee') or '').endswith('time::sleep')]
            oks, bad = C.must_pass(T, sl, [rb], start=bi)
            rec.need(bool(sl) and oks, 'retry-without-delay', T, bi, 'a failed announce is retried without a delay')
            for s in sl:
                d = show(T.expr_call(s))
                rec.need('DELAY_MS' in d, 'retry-delay-const', T, s, 'retry delay is %s' % d[:80])
        else:
            rec.need(not loops_back, 'success-does-not-stop', T, bi, 'after a good reply the task keeps announcing')
    # which outcome builds which message
    pr = [bb for bb, t in C.local_calls(F, T) if 'parse' in t]
    for pb in pr:
        oe = T.outcome_edges(pb)
        for sb, t in oe.get('ok', []):
            reg = T.only_via_edge((sb, t))
            okv = {e[3] for bi, si, e in mirq.agg_sites(T, r'^commands::TrackerCmd$') if bi in reg}
            rec.need(okv == {'TrackerResp'}, 'ok-arm-message', T, pb, 'a parsed reply is reported as %s' % sorted(okv))
        for sb, t in oe.get('err', []):
            reg = T.only_via_edge((sb, t))
            ev = {e[3] for bi, si, e in mirq.agg_sites(T, r'^commands::TrackerCmd$') if bi in reg}
            rec.need(ev == {'Fail'}, 'err-arm-message', T, pb, 'a failed announce is reported as %s' % sorted(ev))
    # manager side
    M = None
    for f, sb in C.fns_switching_on(F, r'^commands::TrackerCmd$'):
        if f.path.startswith('session::'):
            M = (f, sb)
    if not M:
        raise AnchorMissing('manager does not dispatch on TrackerCmd')
    f, sb = M
    tgt, region = C.arm_region(f, sb, 'TrackerResp')
    ext = [bb for bb in mirq.real_calls(f) if bb in region and f.expr_call(bb)[4].get('name') in ('extend_from_slice', 'extend', 'append')]
    okx = False
    for bb in ext:
        e = f.expr_call(bb)
        if (access_path(e[2][0]) or '').split('.')[-1] == V.session_candidates(F) and any(x[0] == 'call' and x[1].endswith('TrackerResp::peers') for x in walk(e[2][1])):
            okx = True
            rec.site(f, bb, 'candidates extended with resp.peers()')
    rec.need(okx, 'peers-not-queued', f, tgt, 'the peers of a good reply are not added to the candidates')
    spawners = [(bb, t) for bb, t in C.local_calls(F, f) if bb in region and 'spawn' in t]
    # ... or from a closure handed to an adaptor in the arm (`(0..n).for_each(|_| self.spawn_peer_handler())`)
    for bb in mirq.real_calls(f):
        if bb in region:
            for x in walk(f.expr_call(bb)):
                if x[0] == 'closure' and F.fns.get(x[1]) is not None:
                    spawners += [(bb, t) for b2, t in C.local_calls(F, F.fns[x[1]]) if 'spawn' in t]
    rec.need(bool(spawners), 'no-connect', f, tgt, 'after a good reply no peer task is started')
    for bb, t in spawners:
        if True:
            S = F.body(t)
            pops = [b2 for b2 in mirq.real_calls(S) if S.expr_call(b2)[4].get('name') == 'pop' and (access_path(S.expr_call(b2)[2][0]) or '').split('.')[-1] == V.session_candidates(F)]
            sp = [b2 for b2 in mirq.real_calls(S) if (S.blocks[b2]['t'].get('callee') or '').endswith('tokio::spawn')]
            rec.site(S, None, 'spawner pops a candidate (%d) and spawns a task (%d)' % (len(pops), len(sp)))
            rec.need(bool(pops) and bool(sp), 'spawner-shape', S, None, 'spawner does not pop a candidate and spawn a task')
            # the spawned future runs the connecting entry point (the one calling TcpStream::connect)
            ok_c = False
            for c in F.children(t):
                cf = F.fns[c]
                for b3, tg in C.local_calls(F, cf):
                    body = F.body(tg)
                    if any((body.blocks[b4]['t'].get('callee') or '').endswith('TcpStream::connect') for b4 in mirq.real_calls(body)):
                        ok_c = True
            rec.need(ok_c, 'spawner-entry', S, None, 'the spawned task does not run the entry point that connects to the candidate')


@TABLE.rule('7', 'K4', 'the manager keeps serving: handling a tracker command (good reply or failure) cannot panic -- shared panic-site '
            'audit of the manager restricted to the TrackerCmd handler', floor=1)
def r7(cx, rec):
    from rules import C12
    F = cx.F
    hs = [f for f, sb in C.fns_switching_on(F, r'^commands::TrackerCmd$', min_arms=2) if f.path.startswith('session::')]
    H = C.one(list({f.path: f for f in hs}.values()), 'manager function dispatching on TrackerCmd')
    keep = re.compile(r'^session::')
    skip = {p for p in F.fns if not keep.search(p)}
    a = C.Audit(F, [F.owner_fn(H).path], C12.ALLOW, skip_fns=skip)
    fns, n = a.run(rec)
    rec.site(H, None, '%d functions reachable from the TrackerCmd handler, %d panic-capable sites' % (len(fns), n))


@TABLE.rule('8', 'K3', 'the tracker task hands every reply / failure to the manager with an awaited send: a full queue delays the task, it '
            'never drops the message', floor=1)
def r8(cx, rec):
    F = cx.F
    n = 0
    for f in F.user_fns():
        if not mirq.agg_sites(f, r'^commands::TrackerCmd$') and not any(
                x[0] == 'agg' and x[2] == 'commands::TrackerCmd' for bb in mirq.real_calls(f) for x in walk(f.expr_call(bb), inl=False)):
            pass
        for bb in mirq.real_calls(f):
            t = f.blocks[bb]['t']
            cal = t.get('callee') or ''
            ga = ''.join(t.get('gargs') or [])
            if 'commands::TrackerCmd' in ga and re.search(r'mpsc::(bounded::)?Sender::<T>::(try_send|send_timeout|blocking_send)$', cal) and not f.path.startswith('session::'):
                rec.violation('tracker-cmd-may-be-dropped/' + F.owner_fn(f).path, f, bb,
                              'the tracker task sends to the manager with %s: when the queue is full the reply (the only good one the task '
                              'ever produces) is lost' % cal.split('::')[-1])
            if 'commands::TrackerCmd' in ga and re.search(r'mpsc::(bounded::)?Sender::<T>::send$', cal) and not f.path.startswith('session::'):
                n += 1
                rec.site(f, bb, 'awaited send of a TrackerCmd')
    rec.need(n >= 1, 'tracker-cmd-not-sent', 'tracker_client', None, 'the tracker task never sends a TrackerCmd to the manager')


@TABLE.rule('9', 'K2', 'the reply body is taken as bytes (ids are binary): no text decoding between the HTTP response and the bencode parser', floor=1)
def r9(cx, rec):
    F = cx.F
    n = 0
    for f in F.user_fns():
        if not f.path.startswith('tracker_client::'):
            continue
        for bb in mirq.real_calls(f):
            cal = f.blocks[bb]['t'].get('callee') or ''
            if re.search(r'reqwest::(async_impl::response::)?Response::bytes$', cal):
                n += 1
                rec.site(f, bb, 'Response::bytes')
            elif re.search(r'reqwest::(async_impl::response::)?Response::(text|text_with_charset|json)$', cal):
                rec.violation('reply-decoded-as-text/' + F.owner_fn(f).path, f, bb,
                              'the tracker reply is read with %s: a binary peer id is replaced by U+FFFD sequences, the bencode lengths no '
                              'longer match and every good reply is reported as a failure' % cal.split('::')[-1])
    rec.need(n >= 1, 'reply-not-read-as-bytes', 'tracker_client', None, 'the reply body is never read as bytes')


@TABLE.rule('10', 'K9', 'a task handle is awaited at most once: the joiner takes it out of its slot before awaiting', floor=2)
def r10(cx, rec):
    F = cx.F
    for p, jp in joiners(F).items():
        f = F.body(p)
        for sb in f.switches():
            e, ts, o = f.cond(sb)
            if e[0] == 'discr' and 'Poll' in e[2] and e[1][0] == 'call' and e[1][1] == 'poll':
                fut = e[1][2][0]
                ap = access_path(fut) or ''
                if not set(re.split(r'[^A-Za-z0-9_]+', ap)) & {fl['name'] for a in F.adts.values() if a['kind'] == 'Struct'
                                                                for fl in a['variants'][0]['fields'] if 'JoinHandle' in fl['ty']}:
                    continue
                opt_slot = any(fl['ty'].startswith('std::option::Option<tokio::task::JoinHandle') for a in F.adts.values() if a['kind'] == 'Struct'
                               for fl in a['variants'][0]['fields'] if fl['name'] == ap.split('.')[-1].split('<')[0])
                taken = any(x[0] == 'call' and x[4].get('name') in ('take', 'remove') for x in walk(fut, inl=False))
                rec.site(f, sb, 'awaits %s (slot is an Option: %s, taken out first: %s)' % (ap[:60], opt_slot, taken))
                if 'Option' in show(fut) or '<Some>' in show(fut):
                    rec.need(taken, 'join-handle-kept/' + p, f, sb,
                             'the JoinHandle is awaited in place (%s) and stays in its slot: a second terminal message makes the manager poll a '
                             'completed handle, which panics the manager task' % ap[:80])
