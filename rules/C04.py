"""C04 -- extraction never writes outside the download directory.

Taint rule over the type-checked program: the strings a torrent controls (Metainfo.name and
File.path) reach path-building or filesystem calls only as the argument of a sanitiser -- a crate
function that walks Path::components() and keeps only Component::Normal parts (recognised
structurally, not by name).  Every filesystem sink in the crate is classified: named after a piece
hash, derived from the sanitised range producer, or a path given by the local user; anything else
fails closed."""
import re
import mirq
from mirq import show, access_path, AnchorMissing, const_of, walk
from rulekit import Table
from rules import common as C
from rules import vocab as V

TABLE = Table('C04')
NOT_DECIDED = ('symlinks already present in the working directory; OS path semantics '
               '(std::path::Component is trusted).')

TAINTED = set()


def tainted(F):
    """(struct, field) pairs holding strings the torrent controls and that name files: Metainfo's field read from key
    "name" and File's path string (resolved by role / type, see rules/vocab.py)"""
    t = {('metainfo::Metainfo', V.meta_name(F)), ('metainfo::File', V.file_path(F))}
    TAINTED.clear()
    TAINTED.update(t)
    return t
SINK_RX = re.compile(r'(^|::)fs::(write|read|rename|copy|remove_file|remove_dir|remove_dir_all|create_dir|create_dir_all|read_dir|metadata|hard_link|symlink)$'
                     r'|fs::File::(create|open|create_new|options)$|OpenOptions::open$|fs::OpenOptions')
PATH_RX = re.compile(r'^std::path::(Path|PathBuf)::<?.*>?::(new|join|push|with_file_name|with_extension|set_file_name)$|^std::path::Path::(new|join)$|^std::path::PathBuf::(push|from|set_file_name)$')


def sanitisers(F, rec=None):
    """crate functions of the form: Path::new(arg).components() filtered so that only
    Component::Normal parts survive (closure or loop), collected into the result"""
    out = []
    for f in F.user_fns():
        if f.kind == 'Closure':
            continue
        comps = [bb for bb in mirq.real_calls(f) if (f.blocks[bb]['t'].get('callee') or '').endswith('Path::components')]
        if not comps:
            continue
        bodies = [f] + [F.fns[c] for c in F.children(f.path)]
        good = False
        for b in bodies:
            for sb in b.switches():
                e, ts, o = b.cond(sb)
                if e[0] == 'discr' and 'std::path::Component' in e[2]:
                    # Some(..)/push only in the Normal arm
                    normal = None
                    names = {0: 'Prefix', 1: 'RootDir', 2: 'CurDir', 3: 'ParentDir', 4: 'Normal'}
                    keep_edges = [t for v, t in ts.items() if names.get(v) == 'Normal']
                    other_edges = [t for v, t in ts.items() if names.get(v) != 'Normal'] + ([o] if not b.is_unreachable_block(o) else [])
                    if len(keep_edges) != 1:
                        continue
                    keep = b.only_via_edge((sb, keep_edges[0])) | {keep_edges[0]}
                    produces = [bi for bi, si, x in mirq.agg_sites(b, r'^std::option::Option$', 'Some')] + \
                               [bb for bb in mirq.real_calls(b) if b.blocks[bb]['t'].get('name') in ('push', 'join')]
                    if produces and all(p in keep for p in produces):
                        # non-Normal arms contribute nothing (None) or an error
                        good = True
        # the components walked are those of the function's own parameter
        if good:
            e = f.expr_call(comps[0])
            params = [v['n'] for v in f.raw['vars'] if 'arg' in v]
            a0 = e[2][0]
            while a0[0] == 'call' and a0[4].get('name') in ('new', 'as_ref', 'as_path', 'from') and a0[2]:
                a0 = a0[2][0]
            src = access_path(a0)
            if src in params:
                out.append(f.path)
    return out


def tainted_mentions(e, safe):
    """field nodes of tainted (adt, field) inside e that are not wrapped by a sanitiser call"""
    out = []

    def rec_(x, under):
        if x[0] == 'call' and x[1] in safe:
            return
        if x[0] == 'field' and len(x) > 3 and (x[3], x[2]) in TAINTED:
            out.append(x)
        for s in sub(x):
            rec_(s, under)

    def sub(x):
        k = x[0]
        if k in ('field', 'variant', 'discr', 'len', 'await', 'try'):
            return [x[1]]
        if k == 'unop':
            return [x[2]]
        if k == 'index':
            return [x[1], x[2]]
        if k == 'call':
            return list(x[2])
        if k == 'binop':
            return [x[2], x[3]]
        if k == 'cast':
            return [x[1]]
        if k == 'agg':
            return [v for _, v in x[4]]
        if k == 'phi':
            return list(x[1])
        if k == 'mvar':
            return [x[2]] if x[2] is not None else []
        if k == 'closure':
            return list(x[2])
        return []
    rec_(e, False)
    return out


def expand(f, e, depth=0):
    """expression with multiply-defined named locals replaced by all their definitions"""
    if depth > 4:
        return [e]
    outs = [e]
    for x in walk(e):
        if x[0] == 'var' and len(x) > 2 and isinstance(x[2], int):
            for d in mirq.local_defs(f, x[2]):
                outs.extend(expand(f, d, depth + 1))
    return outs


@TABLE.rule('1', 'K5a', 'torrent-controlled strings (name, file paths) reach path-building and filesystem calls only through '
            'a Normal-components sanitiser', floor=2)
def r1(cx, rec):
    F = cx.F
    tainted(F)
    safe = set(sanitisers(F))
    for s in safe:
        rec.site(F.fn(s), None, 'sanitiser recognised structurally (components(): only Normal parts kept)')
    n_calls = 0
    for f in F.user_fns():
        for bb in mirq.real_calls(f):
            t = f.blocks[bb]['t']
            callee = t.get('callee') or ''
            full = t.get('callee_full') or ''
            is_path_api = bool(SINK_RX.search(callee)) or callee.startswith('std::path::') or \
                ('PathBuf' in full and t.get('name') in ('from', 'into')) or ('std::path::Path' in full and t.get('name') in ('as_ref',))
            if not is_path_api:
                continue
            if callee.endswith('Path::components') and f.path in safe:
                continue
            if callee.endswith('Path::new') and f.path in safe:
                continue
            n_calls += 1
            e = f.expr_call(bb)
            bad = []
            for a in e[2]:
                for ex in expand(f, a):
                    bad.extend(tainted_mentions(ex, safe))
            if bad:
                rec.site(f, bb, '%s receives %s' % (callee, show(bad[0])))
                rec.violation('unsanitised/%s/%s/%s' % (F.owner_fn(f).path, callee.split('::')[-1], (bad[0][3] or '').split('::')[-1] + '.' + bad[0][2]),
                              f, bb, 'the torrent-controlled string %s reaches %s without passing a sanitiser that keeps only '
                              'Component::Normal parts: "..", an absolute path or a root prefix escape the download directory'
                              % (show(bad[0]), callee))
            else:
                san = [x for a in e[2] for ex in expand(f, a) for x in walk(ex) if x[0] == 'call' and x[1] in safe]
                if san:
                    rec.site(f, bb, '%s receives a sanitised torrent string' % callee)
    rec.note('%d path-building / filesystem calls inspected; sanitisers: %s' % (n_calls, sorted(safe)))
    rec.need(bool(safe), 'no-sanitiser', 'metainfo', None,
             'the crate has no function that reduces a torrent-supplied path to its Normal components')
    # the sources exist (fail closed on renamed/moved fields)
    for adt, fld in TAINTED:
        a = F.adt(adt)
        rec.need(any(x['name'] == fld for x in a['variants'][0]['fields']), 'source-missing/%s.%s' % (adt, fld), adt, None, 'tainted source field not found')


PRESERVING = ('parent', 'as_path', 'as_ref', 'clone', 'to_path_buf', 'to_owned', 'deref', 'borrow', 'iter', 'into_iter', 'next',
              'as_os_str', 'display')


def _preserved(f, e, producers, depth=0):
    """e is an element of a producer's result reached only through projections and path-preserving accessors"""
    if depth > 12:
        return False
    k = e[0]
    if k == 'call' and e[1] in producers:
        return True
    if k in ('field', 'variant', 'cast', 'try', 'await'):
        return _preserved(f, e[1], producers, depth + 1)
    if k == 'call' and e[4].get('name') in PRESERVING and e[2]:
        return _preserved(f, e[2][0], producers, depth + 1)
    if k == 'call' and e[4].get('name') == 'index' and e[2]:
        return _preserved(f, e[2][0], producers, depth + 1)
    if k == 'mvar' and e[2] is not None:
        return _preserved(f, e[2], producers, depth + 1)
    if k == 'var' and len(e) > 2 and isinstance(e[2], int):
        ds = mirq.local_defs(f, e[2])
        return bool(ds) and all(_preserved(f, d, producers, depth + 1) for d in ds)
    if k == 'phi':
        return all(_preserved(f, a, producers, depth + 1) for a in e[1])
    return False


@TABLE.rule('2', 'K2', 'every filesystem sink is classified: piece-hash name, sanitised range producer, or a path supplied by the local user', floor=8)
def r2(cx, rec):
    F = cx.F
    safe = set(sanitisers(F))
    producers = set()
    # functions whose returned PathBufs are built through a sanitiser
    for f in F.user_fns():
        if 'PathBuf' in f.locals[0]['ty'] and f.path not in safe:
            if any(x[0] == 'call' and x[1] in safe for bb in mirq.real_calls(f) for x in walk(f.expr_call(bb))):
                producers.add(f.path)
    for f in F.user_fns():
        for bb in mirq.real_calls(f):
            callee = f.blocks[bb]['t'].get('callee') or ''
            if not SINK_RX.search(callee):
                continue
            e = f.expr_call(bb)
            if not e[2]:
                continue
            arg = e[2][0]
            exs = expand(f, arg)
            cls = None
            allx = [x for ex in exs for x in walk(ex)]
            if any(x[0] == 'call' and x[1].endswith('hash_to_string') for x in allx) and any(x[0] == 'str' and x[1].startswith('.') for x in allx):
                cls = 'piece-hash name'
            elif any(x[0] == 'call' and x[1] in producers for x in allx):
                # the sanitised path must reach the sink as it is (or its parent): nothing may rewrite it afterwards
                if all(_preserved(f, ex, producers) for ex in exs if any(x[0] == 'call' and x[1] in producers for x in walk(ex))):
                    cls = 'element of the sanitised range producer'
                else:
                    rec.violation('sanitised-path-rewritten/%s/%s' % (F.owner_fn(f).path, callee.split('::')[-1]), f, bb,
                                  'the path handed to %s is derived from the sanitised path by further string/path processing (%s): '
                                  'normalising after the check can re-introduce "..", a root or a prefix' % (callee, show(arg)[:120]))
                    cls = 'rewritten'
            else:
                root = mirq.root_var(arg)
                owner = F.owner_fn(f)
                params = [v['n'] for v in owner.raw['vars'] if 'arg' in v]
                pub_cli = owner.path in ('metainfo::Metainfo::create_file', 'metainfo::Metainfo::from_file')
                if root in params and pub_cli:
                    cls = 'path given by the local user (CLI)'
                elif pub_cli and any(x[0] == 'call' and x[4].get('name') in ('file_name', 'to_os_string') for x in allx):
                    cls = 'file name of the local user\'s path'
                elif pub_cli and root == 'torrent_file':
                    cls = 'file name of the local user\'s path'
            rec.site(f, bb, '%s(%s): %s' % (callee.split('::')[-2] + '::' + callee.split('::')[-1], show(arg)[:70], cls))
            rec.need(cls is not None, 'unclassified-sink/%s/%s' % (F.owner_fn(f).path, callee.split('::')[-1]), f, bb,
                     'filesystem call %s takes a path of unknown provenance: %s' % (callee, show(arg)[:120]))
