"""C03 -- verified pieces are reassembled into exactly the described files.

Decides the dependence and plumbing clauses: (1) every write to an output file takes bytes that
data-depend on the file's start offset inside its first piece (through a seek, a slice bound or a
length), and the file's end offset reaches at least one write: bytes that cannot vary with the
start offset cannot be right for two files that differ only in it; (2) each piece file opened for
a file is named after metainfo.piece(k) with k drawn from that file's own piece range, and the
range triple is (sanitised path, piece_pos(pos), piece_pos(pos+length)) with pos accumulated in
file order; (3) piece_pos is (pos / piece_length, pos % piece_length); (4) piece_length(i) is the
piece length except for the last piece, which is the non-zero remainder of the total length."""
import re
import mirq
from mirq import show, access_path, AnchorMissing, const_of, walk
from rulekit import Table
from rules import common as C
from rules import vocab as V

TABLE = Table('C03')
NOT_DECIDED = ('that the per-piece lengths partition the content and that the bytes written equal the '
               'content slice for all geometries (value-level arithmetic; needs a solver or tests).')


def extractor_fn(F):
    """the function that creates the output files and writes them, with the private helpers of its own type spliced in
    (so that moving a block of it into a helper method does not change what the rules see)"""
    if getattr(F, '_c03_extractor', None) is not None:
        return F._c03_extractor
    out = []
    for f in F.user_fns():
        if f.self_ty is None:
            continue
        sp = mirq.inline_fn(F, f, lambda g, f=f: g.self_ty == f.self_ty, depth=2)
        if any((sp.blocks[bb]['t'].get('name') == 'write_all') for bb in mirq.real_calls(sp)) and \
                any((sp.blocks[bb]['t'].get('callee') or '').endswith('File::create') for bb in mirq.real_calls(sp)):
            out.append((f, sp))
    if len(out) > 1:
        # a helper that itself creates and writes is part of its caller
        callees = {t for f, sp in out for b, t in C.local_calls(F, f)}
        out = [(f, sp) for f, sp in out if f.path not in callees]
    F._c03_extractor = C.one([sp for f, sp in out], 'function that creates files and writes them (the extractor)')
    return F._c03_extractor


def total_length_fn(F):
    """the accessor that sums the file lengths"""
    fl = V.file_length(F)
    cands = []
    for f in F.user_fns():
        if f.self_ty == V.MI and f.kind == 'AssocFn' and f.locals[0]['ty'] == 'u64' and f.argc == 1:
            bodies = [f] + [F.fns[c] for c in F.children(f.path)]
            if any(mirq.field_touches(b, 'metainfo::File', fl) for b in bodies) and \
                    any(b.expr_call(bb)[4].get('name') in ('sum', 'fold') for b in bodies for bb in mirq.real_calls(b)):
                cands.append(f)
    return C.one(cands, 'total length accessor (sum of file lengths)')


def pos_fields(F):
    """(index_field, offset_field) of the piece position record, named by how its constructor fills them:
    the quotient pos / piece_length and the remainder pos % piece_length"""
    P = C.one(C.fns_constructing(F, r'^metainfo::PiecePos$', 'PiecePos'), 'constructor of PiecePos')
    idx = off = None
    for bi, si, e in mirq.agg_sites(P, r'^metainfo::PiecePos$'):
        for n, x in e[4]:
            x = mirq.init_of(x)
            if x[0] == 'binop' and x[1] == 'Div':
                idx = n
            if x[0] == 'binop' and x[1] == 'Rem':
                off = n
    if not idx or not off or idx == off:
        raise AnchorMissing('piece position is not built as (pos / piece_length, pos % piece_length)')
    return idx, off


def ranges_fn(F):
    fs = [f for f in F.user_fns() if f.locals[0]['ty'].startswith('std::vec::Vec<(std::path::PathBuf')]
    return C.one(fs, 'function returning the (path, start, end) ranges')


@TABLE.rule('1', 'K10', 'every write to an output file depends on the file\'s start offset; the end offset reaches a write', floor=2)
def r1(cx, rec):
    F = cx.F
    E = extractor_fn(F)
    writes = [bb for bb in mirq.real_calls(E) if E.blocks[bb]['t'].get('name') == 'write_all']
    any_end = False
    for bb in writes:
        e = E.expr_call(bb)
        d = mirq.deps(E, e[2][1])
        IDX, OFF = pos_fields(F)
        start = any(re.search(r'\.1\.%s$' % OFF, x) for x in d)
        end = any(re.search(r'\.2\.%s$' % OFF, x) for x in d)
        any_end = any_end or end
        rec.site(E, bb, 'write_all: depends on start offset=%s, end offset=%s' % (start, end))
        if end:
            # the chunk taken from the file's last piece is `end offset - bytes skipped` long: a length that is the end offset
            # alone over-reads whenever the file starts inside the same piece
            data = e[2][1]
            while data[0] == 'call' and data[4].get('name') in ('as_slice', 'as_ref', 'deref', 'as_mut_slice', 'borrow') and data[2]:
                data = data[2][0]
            init = mirq.init_of(data)
            diff = [x for x in walk(init, inl=False) if x[0] == 'binop' and x[1].replace('WithOverflow', '').replace('Unchecked', '') == 'Sub'
                    and re.search(r'\.2\.%s$' % OFF, access_path(x[2]) or '')]
            rec.need(bool(diff), 'last-chunk-length', E, bb,
                     'the bytes written from the file\'s last piece are not limited to `end offset - skipped bytes`: a file that starts '
                     'inside that piece receives bytes that belong to the following files')
        rec.need(start, 'write-independent-of-start-offset/' + ('with-end' if end else 'whole'), E, bb,
                 'the bytes written here cannot vary with the offset at which the file starts inside its first piece '
                 '(no seek / slice / length derived from it reaches this write): a file that begins in the middle of a '
                 'piece receives bytes from the beginning of that piece')
    rec.need(any_end, 'no-write-depends-on-end-offset', E, None, 'no write depends on the file\'s end offset')
    rec.need(len(writes) >= 1, 'no-write', E, None, 'extractor never writes')


@TABLE.rule('2', 'K5b', 'piece files opened for a file are those of its own piece range; ranges are (path, pos, pos+length) '
            'accumulated in file order', floor=4)
def r2(cx, rec):
    F = cx.F
    E = extractor_fn(F)
    R = ranges_fn(F)
    # the extractor iterates the ranges of this metainfo
    src = [bb for bb in mirq.real_calls(E) if (E.blocks[bb]['t'].get('callee') or '') == R.path]
    rec.need(len(src) == 1, 'ranges-source', E, None, 'the extractor does not take its ranges from %s' % R.path)
    opens = [bb for bb in mirq.real_calls(E) if (E.blocks[bb]['t'].get('callee') or '').endswith('File::open')]
    rec.need(bool(opens), 'no-open', E, None, 'extractor never opens a piece file')
    for bb in opens:
        e = E.expr_call(bb)
        pc = list({(x[1], x[3], show(x)): x for x in walk(e) if x[0] == 'call' and x[1].endswith('Metainfo::piece')}.values())
        okname = len(pc) == 1 and any(x[0] == 'str' and x[1] == '.piece' for x in walk(e)) and \
            any(x[0] == 'call' and x[1].endswith('hash_to_string') for x in walk(e))
        k = pc[0][2][1] if pc else None
        ks = show(k) if k else ''
        # k is either <range>.2.file_index or an element of Range{start: .1.file_index, end: .2.file_index}
        in_range = False
        if k is not None:
            IDX, OFF = pos_fields(F)
            if re.search(r'\.2\.%s$' % IDX, ks):
                in_range = True
            else:
                for x in walk(mirq.init_of(k)):
                    pass
                d = mirq.deps(E, k)
                rng = [y for b2 in mirq.real_calls(E) for y in walk(E.expr_call(b2))
                       if y[0] == 'agg' and y[2] == 'std::ops::Range']
                for r in rng:
                    fs = dict(r[4])
                    if re.search(r'\.1\.%s$' % IDX, show(fs.get('start', ('other', '')))) and \
                            re.search(r'\.2\.%s$' % IDX, show(fs.get('end', ('other', '')))):
                        # the loop variable iterates this range
                        if any(re.search(r'\.1\.%s$' % IDX, z) for z in d):
                            in_range = True
        rec.site(E, bb, 'opens piece(%s)' % ks[-60:])
        rec.need(okname, 'open-name', E, bb, 'opened file is not hash_to_string(metainfo.piece(k)) + ".piece"')
        rec.need(in_range, 'open-index', E, bb, 'piece index %s is not drawn from the file\'s own range' % ks[-80:])
    # the producer
    tuples = []
    for bb in mirq.real_calls(R):
        e = R.expr_call(bb)
        if e[4].get('name') == 'push':
            for x in walk(e):
                if x[0] == 'agg' and x[1] == 'tuple' and len(x[4]) == 3:
                    tuples.append((bb, x))
    rec.need(len(tuples) == 1, 'ranges-shape', R, None, 'ranges are not pushed as one (path, start, end) triple per file')
    for bb, t in tuples:
        # one triple per listed file: inside the loop over the files no path reaches the next iteration without the push
        nxt = [nb for nb in mirq.real_calls(R) if R.expr_call(nb)[1] == 'std::iter::Iterator::next' and bb in R.reach_from(nb) and nb in R.reach_from(bb)]
        for nb in nxt:
            for s2, st in R.outcome_edges(nb).get('some', []):
                ok, bad = C.must_pass(R, [bb], [nb], start=st)
                rec.need(ok, 'ranges-skip', R, nb, 'a listed file can be skipped: an iteration over the file list reaches the next one without '
                         'recording a range (e.g. zero-length files are never created)')
        rec.need(bool(nxt), 'ranges-loop', R, bb, 'the range triple is not recorded once per element of a loop over the file list') if not any(
            R.expr_call(b2)[4].get('name') in ('map', 'for_each') for b2 in mirq.real_calls(R)) else None
        p0, p1, p2 = [v for _, v in t[4]]
        pp = [x for x in (p1, p2) if x[0] == 'call' and x[1] in F.fns]
        rec.site(R, bb, 'triple (%s, %s, %s)' % (show(p0)[:50], show(p1)[:60], show(p2)[:90]))
        rec.need(len(pp) == 2 and p1[1] == p2[1], 'ranges-pos-fn', R, bb, 'start and end are not computed by the same position function')
        if len(pp) == 2:
            a1 = p1[2][1]
            a2 = p2[2][1]
            pos = access_path(a1)
            inner = a2
            while inner[0] == 'field' and inner[2] == '0':
                inner = inner[1]
            ok_end = inner[0] == 'binop' and inner[1].startswith('Add') and access_path(inner[2]) == pos and \
                (access_path(inner[3]) or '').endswith('.' + V.file_length(F))
            rec.need(pos is not None and ok_end, 'ranges-end', R, bb, 'end position is %s, not start position + file length' % show(a2)[:100])
            # pos accumulates length after the push, inside the loop
            acc = False
            for bi, si, s in R.assigns():
                if not s['lhs'].get('p') and R._localnames.get(s['lhs']['l']) == pos:
                    x = R.expr_rvalue(s['rv'])
                    while x[0] == 'field' and x[2] == '0':
                        x = x[1]
                    if x[0] == 'binop' and x[1].startswith('Add') and access_path(x[2]) == pos and (access_path(x[3]) or '').endswith('.' + V.file_length(F)):
                        if bi in R.reach_from(bb) and bb in R.reach_from(bi):
                            acc = True
                            rec.site(R, bi, '%s += length' % pos)
                    elif const_of(x) and const_of(x)[0] == 0:
                        pass
            rec.need(acc, 'ranges-accumulate', R, bb, 'the running position is not advanced by the file length in the loop')
    # order-preserving iteration over self.files
    its = [R.expr_call(bb) for bb in mirq.real_calls(R) if R.blocks[bb]['t'].get('name') in ('iter', 'into_iter', 'rev', 'sort', 'sort_by', 'skip', 'step_by', 'filter')]
    bad = [show(x)[:60] for x in its if x[4].get('name') in ('rev', 'sort', 'sort_by', 'skip', 'step_by', 'filter')]
    rec.need(not bad, 'ranges-order', R, None, 'file list is reordered or filtered: %s' % bad)


@TABLE.rule('3', 'K7', 'piece_pos(pos) = (pos / piece_length, pos % piece_length)', floor=1)
def r3(cx, rec):
    F = cx.F
    fs = C.fns_constructing(F, r'^metainfo::PiecePos$', 'PiecePos')
    P = C.one(fs, 'constructor of PiecePos')
    for bi, si, e in mirq.agg_sites(P, r'^metainfo::PiecePos$'):
        fields = dict(e[4])
        rec.site(P, bi, show(e)[:200])
        for name, op in zip(pos_fields(F), ('Div', 'Rem')):
            x = fields.get(name)
            ok = x is not None and x[0] == 'binop' and x[1] == op and C.param_pos(P, x[2]) == 2 and access_path(x[2]) == C.params_of(P)[-1][0] and \
                (access_path(x[3]) or '') == 'self.' + V.meta_piece_length(F)
            rec.need(ok, 'piece-pos/' + name, P, bi, '%s is %s, expected %s(pos, piece_length)' % (name, show(x)[:80] if x else None, op))


@TABLE.rule('4', 'K7', 'piece_length(i): piece length for all but the last piece; the last piece is the remainder of the total '
            'length, or a full piece when the remainder is 0', floor=3)
def r4(cx, rec):
    F = cx.F
    L = None
    if L is None:
        cands = [f for f in F.user_fns() if f.self_ty == 'metainfo::Metainfo' and any(x[0] == 'binop' and x[1] == 'Rem' for bi, si, s in f.assigns() for x in walk(f.expr_rvalue(s['rv'])))
                 and 'usize' == f.locals[0]['ty'] and f.argc == 2]
        L = C.one(cands, 'per-piece length accessor')
    rets = [(bi, L.expr_rvalue(s['rv'])) for bi, si, s in L.assigns() if s['lhs']['l'] == 0 and not s['lhs'].get('p')]
    PL = 'self.' + V.meta_piece_length(F)
    full = [bi for bi, e in rets if access_path(e) == PL]
    rem = [bi for bi, e in rets if access_path(e) is None or access_path(e) == 'last']
    # guard 1: index < len(pieces) - 1 -> full
    g1 = g2 = False
    for sb in L.switches():
        e, ts, o = L.cond(sb)
        if e[0] == 'binop' and L.bool_edges(sb):
            tt, ff = L.bool_edges(sb)
            if e[1] == 'Lt' and access_path(e[2]) == 'piece_index':
                rhs = e[3]
                while rhs[0] == 'field' and rhs[2] == '0':
                    rhs = rhs[1]
                if rhs[0] == 'binop' and rhs[1].startswith('Sub') and const_of(rhs[3]) and const_of(rhs[3])[0] == 1 and V.mentions_field(rhs[2], V.MI, V.meta_hashes(F)):
                    r_true = L.reach_from(tt, cut_blocks=[sb])
                    if any(b in r_true for b in full) and not any(b in r_true for b in rem if b not in full):
                        g1 = True
                        rec.site(L, sb, 'not the last piece -> piece length')
            if e[1] in ('Ne', 'Eq') and const_of(e[3]) and const_of(e[3])[0] == 0:
                lhs = mirq.init_of(e[2])
                if lhs[0] == 'binop' and lhs[1] == 'Rem' and any(y[0] == 'call' and y[1] == total_length_fn(F).path for y in walk(lhs[2], inl=False)) and (access_path(lhs[3]) or '') == PL:
                    nz = tt if e[1] == 'Ne' else ff
                    z = ff if e[1] == 'Ne' else tt
                    rz = L.reach_from(z, cut_blocks=[sb])
                    rnz = L.reach_from(nz, cut_blocks=[sb])
                    if any(b in rz for b in full) and any(b in rnz for b, x in rets if b not in full):
                        g2 = True
                        rec.site(L, sb, 'last piece: remainder if non-zero else piece length')
    rec.site(L, None, 'returns: %s' % [show(e)[:50] for bi, e in rets])
    # lengths and offsets are 64-bit quantities: no narrowing conversion on the way (content of 4 GiB and more)
    for g in (L, C.one(C.fns_constructing(F, r'^metainfo::PiecePos$', 'PiecePos'), 'constructor of PiecePos'), ranges_fn(F)):
        narrow = []
        for bi, si, s in g.assigns():
            for x in walk(g.expr_rvalue(s['rv']), inl=False):
                if x[0] == 'cast' and x[2] in ('u32', 'i32', 'u16', 'i16', 'u8', 'i8') and x[1][0] != 'const':
                    narrow.append((bi, x))
        for bi, x in narrow[:1]:
            rec.violation('narrowing-cast/' + g.name, g, bi, 'a length/offset is converted to %s (%s): sizes of 4 GiB and more are computed '
                          'modulo 2^32 and the piece lengths no longer add up to the content' % (x[2], show(x)[:60]))
    rec.need(g1, 'piece-length/non-last', L, None, 'pieces before the last one do not get the full piece length under `i < pieces - 1`')
    rec.need(g2, 'piece-length/last', L, None, 'the last piece is not `total % piece_length` (full piece when 0)')
