"""C10 -- block requests tile each assigned piece exactly once (structural clauses).

Decides: (1) the (begin, length) popped from the not-yet-requested queue is recorded as outstanding
and is exactly the (begin, length) of the Request sent on the same path, for the assigned piece
index; only the constructor, the sender, the completion `retain` and the cancel loop touch the two
queues; (2) every planned block length is PIECE_BLOCK_SIZE or piece_length % PIECE_BLOCK_SIZE,
stride, comparison and modulus use that one constant, the range is 0..piece_length; (3) on the
accepted path the answered block is removed from the outstanding queue by a predicate equal on
begin and length, then either the completion test holds or a further request is sent; a new
assignment installs the state and sends at least one request; (4) completion is `both queues
empty` and verify/save/PieceDone sit on its true edge only."""
import re
import mirq
from mirq import show, access_path, AnchorMissing, const_of, walk
from rulekit import Table
from rules import common as C
from rules import vocab as V
from rules import C01, C07

TABLE = Table('C10')
NOT_DECIDED = ('"covers the piece\'s length exactly once with no gap or overlap" for all lengths: arithmetic over run-time '
               'values (> vs >=, the remainder for exact multiples); not decided and not claimed.')


def queues(F):
    adt, buff, hsh, idx = C01.piece_rx_struct(F)
    fs = {x['name']: x['ty'] for x in F.adts[adt]['variants'][0]['fields']}
    qs = [n for n, t in fs.items() if t.startswith('std::collections::VecDeque<(usize, usize)')]
    return adt, qs, idx


def sender_fn(F):
    rn = C07.impl_method(F, dict(C07.messages(F))['Request'], 'new')
    cs = C.callers(F, rn.path)
    return C.one(cs, 'call site of Request::new')


@TABLE.rule('1', 'K8/K5b', 'popped (begin, length) is pushed to the outstanding queue and sent as Request(index, begin, length); '
            'only constructor / sender / completion retain / cancel loop touch the queues', floor=4)
def r1(cx, rec):
    F = cx.F
    adt, qs, idx = queues(F)
    S, rb = sender_fn(F)
    e = S.expr_call(rb)
    a_idx, a_beg, a_len = e[2]
    pops = [x for x in walk(e) if x[0] == 'call' and x[4].get('name') in ('pop_front', 'pop_back', 'pop')]
    rec.need(bool(pops), 'request-not-from-queue', S, rb, 'request fields do not come from the planned-block queue: %s' % show(e)[:120])
    if pops:
        src_q = (access_path(pops[0][2][0]) or '').split('.')[-1]
        sb_, sl_ = show(a_beg), show(a_len)
        rec.site(S, rb, 'Request::new(index=%s, begin=pop(%s).0, length=pop(%s).1)' % (access_path(a_idx), src_q, src_q))
        rec.need(sb_.endswith('.0.0') and sl_.endswith('.0.1') and sb_[:-1] == sl_[:-1], 'request-fields-swapped', S, rb,
                 'begin/length of the request are %s / %s' % (sb_[-30:], sl_[-30:]))
        rec.need((access_path(a_idx) or '').endswith('.' + idx), 'request-index', S, rb, 'request index is %s, not the assigned piece index' % show(a_idx)[:60])
        rec.need(pops[0][4].get('name') == 'pop_front', 'request-order', S, rb, 'blocks are not requested from the front of the plan')
        pushes = [bb for bb in mirq.real_calls(S) if S.expr_call(bb)[4].get('name') in ('push_back', 'push')]
        okp = False
        for pb in pushes:
            pe = S.expr_call(pb)
            dq = (access_path(pe[2][0]) or '').split('.')[-1]
            t = pe[2][1]
            if t[0] == 'agg' and t[1] == 'tuple' and dq in qs and dq != src_q:
                vs = [show(v) for _, v in t[4]]
                if vs == [sb_, sl_]:
                    ok, bad = C.must_pass(S, [pb], [rb])
                    okp = ok
                    rec.site(S, pb, 'outstanding.push_back((begin, length)) before the send: %s' % ok)
        rec.need(okp, 'request-not-recorded', S, rb, 'a request is sent without recording the same (begin, length) as outstanding')
        ok, why = C.error_propagates(S, [bb for bb in mirq.real_calls(S) if 'send_msg' in (S.blocks[bb]['t'].get('callee') or '')][0])
        rec.need(ok, 'request-send-error-ignored', S, rb, 'send error ignored: ' + why)
    # K2: who touches the queues
    allowed = set()
    touch = {}
    for f in F.user_fns():
        for q in qs:
            for bi, si, k in mirq.field_touches(f, adt, q):
                touch.setdefault(F.owner_fn(f).path, set()).add((q, k))
    H, vbb = C01.block_handler(F)
    okowners = {F.owner_fn(S).path, F.owner_fn(H).path}
    # constructor of the state, the requested-block test, the cancel loop (reads only)
    for owner, ks in touch.items():
        writes = {k for q, k in ks if k in ('store', 'ref_mut', 'init')}
        rec.site(F.fn(owner), None, 'touches queues: %s' % sorted(ks))
        if writes - {'init'}:
            # a method of the queue's own type that only the two owners call is part of them (an extracted step)
            cs = {F.owner_fn(g).path for g, bb in C.callers(F, owner)}
            if F.fn(owner).self_ty == adt and cs and cs <= okowners:
                rec.site(F.fn(owner), None, 'helper of %s, called only from %s' % (adt, sorted(cs)))
                continue
            rec.need(owner in okowners, 'queue-writer/' + owner, F.fn(owner), None, '%s mutates the request queues' % owner)


@TABLE.rule('2', 'K7+K11', 'planned lengths are PIECE_BLOCK_SIZE or piece_length % PIECE_BLOCK_SIZE; stride/comparison/modulus use the '
            'same constant; range 0..piece_length', floor=4)
def r2(cx, rec):
    F = cx.F
    adt, qs, idx = queues(F)
    planners = []
    for f in F.user_fns():
        if any(f.expr_call(bb)[4].get('name') == 'step_by' for bb in mirq.real_calls(f)) and 'VecDeque<(usize, usize)' in f.locals[0]['ty']:
            planners.append(f)
    P = C.one(planners, 'block planner (step_by producing a queue of (begin, length))')
    sb_calls = [bb for bb in mirq.real_calls(P) if P.expr_call(bb)[4].get('name') == 'step_by']
    e = P.expr_call(sb_calls[0])
    rng = e[2][0]
    stride = const_of(e[2][1])
    fields = dict(rng[4]) if rng[0] == 'agg' else {}
    plen = C.params_of(P)[-1][0]
    rec.site(P, sb_calls[0], 'range %s step %s' % (show(rng)[:60], stride))
    rec.need(rng[0] == 'agg' and rng[2] == 'std::ops::Range' and const_of(fields.get('start', ('other',))) and const_of(fields['start'])[0] == 0
             and access_path(fields.get('end', ('other', ''))) == plen, 'plan-range', P, sb_calls[0], 'planned range is %s, expected 0..piece_length' % show(rng)[:80])
    rec.need(stride and (stride[1] or '').endswith('PIECE_BLOCK_SIZE'), 'plan-stride', P, sb_calls[0], 'stride is %s' % (stride,))
    # pushed tuples: (loop value, block_length) ; block_length defs
    pushes = [bb for bb in mirq.real_calls(P) if P.expr_call(bb)[4].get('name') in ('push_back', 'push')]
    # two idioms: a loop pushing (begin, length), or `range.step_by(..).map(|begin| (begin, length)).collect()`
    plans = [(P, pb, P.expr_call(pb)[2][1], (lambda e: 'next(' in show(e))) for pb in pushes]
    if not pushes:
        ret = mirq.init_of(P.expr_local(0))
        maps = [x for x in walk(ret, inl=False) if x[0] == 'call' and x[4].get('name') == 'map' and x[2] and
                any(y[0] == 'call' and y[3] == sb_calls[0] for y in walk(x[2][0], inl=False))]
        for m in maps:
            clo = [a for a in m[2][1:] if a[0] == 'closure']
            if clo:
                cf = F.fn(clo[0][1])
                pn = mirq.closure_param(cf)
                plans.append((cf, None, mirq.closure_result(cf), (lambda e, pn=pn: access_path(e) == pn)))
    rec.need(len(plans) == 1, 'plan-push', P, None, 'planner produces elements in %d places' % len(plans))
    B = plans[0][0] if plans else P
    for B, pb, t, is_loopval in plans:
        if not (t[0] == 'agg' and t[1] == 'tuple' and len(t[4]) == 2):
            rec.violation('plan-tuple', B, pb, 'planned element is %s' % show(t)[:80])
            continue
        beg, ln = t[4][0][1], t[4][1][1]
        rec.need(is_loopval(beg), 'plan-begin', B, pb, 'block begin is %s, not the loop value' % show(beg)[:60])
        alts = mirq.local_defs(B, ln[2]) if ln[0] == 'var' and len(ln) > 2 else (list(ln[1]) if ln[0] == 'phi' else [ln])
        kinds = []
        for a in alts:
            c = const_of(a)
            if c and (c[1] or '').endswith('PIECE_BLOCK_SIZE'):
                kinds.append('full')
            elif a[0] == 'binop' and a[1] == 'Rem' and (access_path(a[2]) or '').split('__')[-1] == plen and const_of(a[3]) and (const_of(a[3])[1] or '').endswith('PIECE_BLOCK_SIZE'):
                kinds.append('remainder')
            else:
                kinds.append('other:' + show(a)[:50])
        rec.site(B, pb, 'planned lengths: %s' % kinds)
        rec.need(sorted(kinds) == ['full', 'remainder'], 'plan-lengths', B, pb, 'planned block lengths are %s' % kinds)
    # the selecting comparison uses the same constant and the piece length
    okc = False
    for sb in B.switches():
        ce, ts, o = B.cond(sb)
        if ce[0] == 'binop' and ce[1] in ('Gt', 'Ge', 'Lt', 'Le'):
            s = show(ce)
            if 'PIECE_BLOCK_SIZE' in s and plen in s and any(plans and plans[0][3](y) for y in walk(ce, inl=False)):
                okc = True
                rec.site(B, sb, 'selector %s' % s[-110:])
                # exact: the remainder is planned iff begin + BLOCK > piece length
                from rules import C07
                (cl, vl), (cr, vr) = C07.lin(ce[2]), C07.lin(ce[3])
                blk = F.const_val('constants::PIECE_BLOCK_SIZE')
                if cl is not None and cr is not None and vl and vr:
                    if plen in (vr or ''):
                        t = {'Gt': cl - cr, 'Ge': cl - cr + 1}.get(ce[1])
                    else:
                        t = {'Lt': cr - cl, 'Le': cr - cl + 1}.get(ce[1])
                else:
                    t = None
                if True:
                    rec.need(t == blk, 'plan-selector-threshold', B, sb,
                             'the last block is recognised by `%s`: a block is planned short iff begin + %s > piece length, expected + %d '
                             '(for some piece lengths the last request runs past the end of the piece, or a full block is cut)' % (s[-80:], t, blk))
    rec.need(okc, 'plan-selector', P, None, 'no comparison of begin + PIECE_BLOCK_SIZE with piece_length selects the last block')
    # the planner is fed the request's piece length
    for f, bb in C.callers(F, P.path):
        a = access_path(f.expr_call(bb)[2][0])
        rec.site(f, bb, 'planner(%s)' % a)
        rec.need((a or '').endswith('piece_length'), 'plan-arg', f, bb, 'planner is given %s' % a)


def cancel_clears_state(cx, rec):
    """a download that is given up (PieceCancel reported to the manager) leaves no assembly state behind: the slot is cleared
    on every path to the report, so late blocks of the abandoned piece cannot complete a stale buffer that the manager
    would book on the next assignment"""
    F = cx.F
    reps = {F.owner_fn(f).path for f in C.fns_constructing(F, r'^commands::PeerCmd$', 'PieceCancel')}
    n = 0
    # a builder that is handed the done/cancel flag by its only callers' own parameter is looked through
    for _ in range(2):
        for rp in sorted(reps):
            cs = C.callers(F, rp)
            if cs and all(any(a[0] == 'var' and C.is_param(f, a) and mirq.const_of(a) is None and
                              any(n2 == a[1] and t == 'bool' for n2, l, t in C.params_of(F.owner_fn(f))) for a in f.expr_call(bb)[2][1:])
                          for f, bb in cs):
                reps = (reps - {rp}) | {F.owner_fn(f).path for f, bb in cs}
    for rp in reps:
        for f, bb in C.callers(F, rp):
            args = f.expr_call(bb)[2]
            cancel = any(a[0] == 'const' and a[3] == 'bool' and a[1] == 0 for a in args[1:]) or not any(a[0] == 'const' and a[3] == 'bool' for a in args[1:])
            if not cancel:
                continue
            n += 1
            clears = [bi for bi, si, s in f.stores() if access_path(f.expr_place(s['lhs'])) == 'self.' + V.rx_slot(F)
                      and f.expr_rvalue(s['rv'])[0] == 'agg' and f.expr_rvalue(s['rv'])[3] == 'None']
            clears += [b2 for b2 in mirq.real_calls(f) if f.expr_call(b2)[4].get('name') == 'take' and access_path(f.expr_call(b2)[2][0]) == 'self.' + V.rx_slot(F)]
            ok, bad = C.must_pass(f, clears, [bb]) if clears else (False, None)
            rec.site(f, bb, 'cancel reported; assembly state cleared on every path to it: %s' % ok)
            rec.need(ok, 'cancel-keeps-state/' + F.owner_fn(f).path, f, bb,
                     'the download is reported as cancelled while its assembly state stays in place: late blocks can complete the stale '
                     'buffer, and the resulting PieceDone is booked on whatever piece the manager assigned next')
    rec.need(n >= 1, 'no-cancel-report', 'peer_handler', None, 'no site reports a cancelled download')


def fresh_assignment(cx, rec):
    """a new assignment always starts from a fresh assembly state: in the function that installs Some(<new state>), every
    path from its entry to a request (or to its normal return) passes through that store, and the stored value is built from
    the assignment's own request data"""
    F = cx.F
    S, rb = sender_fn(F)
    spath = F.owner_fn(S).path
    for nf in F.user_fns():
        st = [(bi, nf.expr_rvalue(s['rv'])) for bi, si, s in nf.stores() if access_path(nf.expr_place(s['lhs'])) == 'self.' + V.rx_slot(F)
              and nf.expr_rvalue(s['rv'])[0] == 'agg' and nf.expr_rvalue(s['rv'])[3] == 'Some']
        if not st:
            continue
        sc = C.calls_to_fn(F, nf, spath)
        ok, bad = C.must_pass(nf, [bi for bi, v in st], list(sc) + C.ok_exit_blocks(nf), start=0)
        rec.site(nf, st[0][0], 'every path to a request / normal return installs the new state first: %s' % ok)
        rec.need(ok, 'assignment-keeps-old-state/' + F.owner_fn(nf).path, nf, st[0][0],
                 'a new piece assignment can proceed to its requests without replacing the assembly state: blocks and outstanding '
                 'requests of the previous assignment survive (the buffer then mixes two pieces, or stale requests are never re-issued)')
        for bi, v in st:
            inner = v[4][0][1]
            okv = inner[0] == 'call' and inner[1] in F.fns and any(C.is_param(nf, a) for a in inner[2])
            rec.need(okv, 'assignment-state-source/' + F.owner_fn(nf).path, nf, bi, 'the installed state is %s, not built from the assignment\'s request data' % show(inner)[:80])


@TABLE.rule('3', 'K1', 'accepted block: removed from outstanding by (begin && length) equality; then completion or a further request; '
            'a new assignment sends at least one request', floor=3)
def r3(cx, rec):
    F = cx.F
    adt, qs, idx = queues(F)
    H, vbb = C01.block_handler(F)
    S, rb = sender_fn(F)
    spath = F.owner_fn(S).path
    H0 = H
    H = mirq.inline_fn(F, H, lambda g: g.self_ty == adt and not g.trait and {F.owner_fn(c).path for c, bb in C.callers(F, g.path)} == {F.owner_fn(H0).path}, depth=1)
    rets = [bb for bb in mirq.real_calls(H) if H.expr_call(bb)[4].get('name') == 'retain']
    rec.need(len(rets) == 1, 'no-retain', H, None, 'the answered block is not removed from the outstanding queue (retain)')
    for rb2 in rets:
        e = H.expr_call(rb2)
        q = (access_path(e[2][0]) or '').split('.')[-1]
        rec.need(q in qs, 'retain-queue', H, rb2, 'retain is applied to %s' % q)
        clo = [x for x in walk(e) if x[0] == 'closure']
        cf = F.fn(clo[0][1])
        from rules.C14 import closure_truth
        tt = closure_truth(F, cf)
        # what the element is compared with: the received block's begin / length, taken from the message directly or from a
        # local of the handler that holds them (captured by the closure)
        from rules.C13 import captures
        caps = captures(F, clo[0])
        begin_tok = {'block_begin'}
        len_tok = {'block_length'}
        for up, ex in caps.items():
            sx = show(C.through_helper(ex))
            sx0 = show(ex)
            if 'block_begin' in sx or 'block_begin' in sx0:
                begin_tok.add(up)
            if 'block_length' in sx or 'block_length' in sx0:
                len_tok.add(up)

        def has(k, toks):
            return any(re.search(r'\b%s\b' % re.escape(t), k) for t in toks)
        # element kept (true) unless begin == block_begin && length == block_length
        dropped = [a for a, r in tt if r is False]
        okd = bool(dropped) and all(any(has(k, begin_tok) and '.0' in k and v is True for k, v in a.items()) and
                                    any(has(k, len_tok) and '.1' in k and v is True for k, v in a.items()) for a in dropped)
        kept_when_equal = [a for a, r in tt if r is True and any(has(k, begin_tok) and v is True for k, v in a.items()) and any(has(k, len_tok) and v is True for k, v in a.items())]
        rec.site(cf, None, 'retain predicate truth table: %s' % [({k[-28:]: v for k, v in a.items()}, r) for a, r in tt])
        rec.need(okd and not kept_when_equal, 'retain-predicate', cf, None, 'the removed element is not exactly the one equal in begin and length')
    # after the copy: completion guard or send_request
    H = H0
    copies = [bb for bb in mirq.real_calls(H) if H.expr_call(bb)[4].get('name') in ('copy_from_slice', 'clone_from_slice')]
    sends = C.calls_to_fn(F, H, spath)
    comp = vbb
    for cb in copies:
        r = H.reach_from(cb, cut_blocks=set(sends) | {comp})
        bad = [b for b in C.ok_exit_blocks(H) if b in r]
        rec.site(H, cb, 'after storing a block: completion or further request on every Ok path: %s' % (not bad))
        rec.need(not bad, 'no-progress-after-block', H, cb, 'an accepted block can be followed by neither the completion sequence nor a further request')
    # new assignment
    news = [f for f in F.user_fns() if any(bi for bi, si, s in f.stores() if access_path(f.expr_place(s['lhs'])) == 'self.' + V.rx_slot(F)
                                            and f.expr_rvalue(s['rv'])[0] == 'agg' and f.expr_rvalue(s['rv'])[3] == 'Some')]
    for nf in news:
        st = [bi for bi, si, s in nf.stores() if access_path(nf.expr_place(s['lhs'])) == 'self.' + V.rx_slot(F) and nf.expr_rvalue(s['rv'])[3:4] == ('Some',)]
        sc = C.calls_to_fn(F, nf, spath)
        ok, bad = C.must_pass(nf, sc, C.ok_exit_blocks(nf), start=st[0])
        rec.site(nf, st[0], 'assignment installs the state and requests (%d request calls)' % len(sc))
        rec.need(bool(sc) and ok, 'assignment-without-request', nf, st[0], 'a new piece assignment does not send a request')
    rec.need(bool(news), 'no-assignment', H, None, 'no function installs a new assembly state')
    fresh_assignment(cx, rec)
    cancel_clears_state(cx, rec)
    # the assembly state is never cleared after a (re)assignment on the same path
    installers = {F.owner_fn(nf).path for nf in news}
    changed = True
    while changed:
        changed = False
        for f in F.user_fns():
            o = F.owner_fn(f).path
            if o in installers or not o.startswith('peer_handler::'):
                continue
            if any(t in installers for b, t in C.local_calls(F, f)):
                installers.add(o)
                changed = True
    for f in F.user_fns():
        if not f.path.startswith('peer_handler::'):
            continue
        clears = [bi for bi, si, s in f.stores() if access_path(f.expr_place(s['lhs'])) == 'self.' + V.rx_slot(F)
                  and f.expr_rvalue(s['rv'])[0] == 'agg' and f.expr_rvalue(s['rv'])[3] == 'None']
        clears += [bb for bb in mirq.real_calls(f) if f.expr_call(bb)[4].get('name') == 'take' and access_path(f.expr_call(bb)[2][0]) == 'self.' + V.rx_slot(F)]
        inst_calls = [b for b, t in C.local_calls(F, f) if t in installers]
        for cb in clears:
            after = [b for b in inst_calls if cb in f.reach_from(b) and b != cb]
            rec.site(f, cb, 'assembly state cleared; calls that may install a new one before it on some path: %d' % len(after))
            rec.need(not after, 'state-cleared-after-assignment/' + F.owner_fn(f).path, f, cb,
                     'the assembly state is cleared after a call that may have installed a new piece assignment (and sent its first requests): '
                     'the answers are then rejected as unexpected and no further request is sent')


@TABLE.rule('4', 'K7', 'completion is "both queues empty"; verify/save/PieceDone only on its true edge', floor=2)
def r4(cx, rec):
    F = cx.F
    adt, qs, idx = queues(F)
    H, vbb = C01.block_handler(F)
    need = set(qs)
    got = set()
    for sb in H.switches():
        e, ts, o = H.cond(sb)
        if e[0] == 'call' and e[4].get('name') == 'is_empty' and H.bool_edges(sb):
            q = (access_path(e[2][0]) or '').split('.')[-1]
            tt, ff = H.bool_edges(sb)
            if q in qs and (vbb in H.only_via_edge((sb, tt))):
                got.add(q)
                rec.site(H, sb, 'verification only when %s.is_empty()' % q)
    rec.need(got == need, 'completion-guard', H, vbb, 'hash verification is reachable while %s is not known to be empty' % sorted(need - got))
