"""C16 -- the bencode decoder accepts exactly well-formed input, and never panics (totality,
guard and termination clauses; language equality is not decided).

Decides: (1) panic-site audit of everything reachable from BDecoder::from_array; (2) each
rejection guard is present and leads to Err (leading zero / -0, non-digit in a length or integer,
unparsable number, payload shorter than its length, odd dictionary, non-string key, stray 'e' at
top level, unknown delimiter), and the Ok exit of each function is reachable only past its guards;
(3) termination evidence: a scanner that stops either at a terminator or at the end of input must
tell the two apart: (a) the exit taken on iterator exhaustion reaches Err when a terminator is
expected (values_vector and its raw sibling), (b) every take_while(!= T) scan is followed by an
end-of-input test that returns Err."""
import re
import mirq
from mirq import show, access_path, AnchorMissing, const_of, walk
from rulekit import Table
from rules import common as C
from rules import vocab as V

TABLE = Table('C16')
NOT_DECIDED = ('"succeeds exactly when the input is well-formed" as language equality, and the returned values (value-level). '
               'Unbounded recursion depth is reported as an informational call-graph fact (stack exhaustion aborts, it is not a panic).')

ALLOW = {}

GUARDS = [
    # (function suffix, Error variant, regex on the guarding condition, minimum sites)
    ('BDecoder::values_vector', 'DecodeUnexpectedChar', r'with_end|Delimiter', 1),
    ('BDecoder::values_vector', 'DecodeIncorrectChar', r'discr\(', 1),
    ('BDecoder::parse_byte_str', 'DecodeIncorrectChar', r'Iterator::(all|any)\(', 1),
    ('BDecoder::parse_byte_str', 'DecodeUnableConvert', r'from_utf8|parse\(', 2),
    ('BDecoder::parse_byte_str', 'DecodeNotEnoughChars', r'Ne\(.*len\(|Iterator::nth\(', 2),
    ('BDecoder::parse_int', 'DecodeMissingTerminalChars', r'Iterator::nth\(', 1),
    ('BDecoder::parse_int', 'DecodeLeadingZero', r'starts_with\(', 1),
    ('BDecoder::parse_int', 'DecodeUnableConvert', r'from_utf8|parse\(', 2),
    ('BDecoder::parse_dict', 'DecodeOddNumOfElements', r'Rem\(.*len\(.*, 2\)', 1),
    ('BDecoder::keys_from_list', 'DecodeKeyNotString', r'discr\(', 1),
    ('BDecoder::extract_int', 'DecodeIncorrectChar', r'contains|Eq\(', 1),
]


ROLES = ('values_vector', 'from_array', 'parse_byte_str', 'parse_int', 'parse_dict', 'keys_from_list', 'extract_int')


def fn_by_suffix(F, suf):
    """decoder function in the role named by suf ('BDecoder::parse_int', ...): resolved by signature, not by name, with the
    private helpers that only it calls spliced in (a conversion moved into a helper keeps its rejections in the count)"""
    role = suf.split('::')[-1]
    cache = F.__dict__.setdefault('_c16_fns', {})
    if role in cache:
        return cache[role]
    f = V.codec_fn(F, role)
    role_paths = set()
    for r in ROLES:
        try:
            role_paths.add(V.codec_fn(F, r).path)
        except AnchorMissing:
            pass

    def exclusive(g):
        cs = C.callers(F, g.path)
        return g.path not in role_paths and g.self_ty == f.self_ty and bool(cs) and all(F.owner_fn(c).path == f.path for c, cb in cs)
    cache[role] = mirq.inline_fn(F, f, exclusive, depth=2)
    cache[role + '/parts'] = [f] + [g for g in F.user_fns() if g.kind in ('Fn', 'AssocFn') and exclusive(g)]
    return cache[role]


def fn_parts(F, suf):
    """the role function as written plus the helpers only it calls, each on its own (for rules about one function's exits)"""
    fn_by_suffix(F, suf)
    return F._c16_fns[suf.split('::')[-1] + '/parts']


@TABLE.rule('1', 'K4', 'panic-site audit of BDecoder::from_array (whole call graph)', floor=2)
def r1(cx, rec):
    F = cx.F
    root = fn_by_suffix(F, 'BDecoder::from_array')
    a = C.Audit(F, [root.path], ALLOW)
    fns, n = a.run(rec)
    rec.site(root, None, '%d functions reachable, %d panic-capable sites' % (len(fns), n))
    # informational: recursion
    cg = F.callgraph()
    rec_fns = [p for p in fns if p in F.reachable_fns(list(cg.get(p, ())))]
    rec.note('recursive functions (unbounded nesting depth -> stack exhaustion is an abort, not a panic): %s' % sorted(rec_fns))


@TABLE.rule('2', 'K7', 'rejection guards are present and lead to Err; Ok exits lie past the guards', floor=11)
def r2(cx, rec):
    F = cx.F
    for suf, variant, rx, nmin in GUARDS:
        f = fn_by_suffix(F, suf)
        bodies = [f] + [F.fns[c] for c in F.children(f.path)]
        n = 0
        for b in bodies:
            for bi, si, e in mirq.agg_sites(b, r'^error::Error$', variant):
                n += 1
                # the switch(es) from one edge of which this block is reached directly
                guard = None
                others = set(b.switches())
                for sb in b.switches():
                    ce, ts, o = b.cond(sb)
                    edges = set(list(ts.values()) + [o])
                    hit = [t for t in edges if bi == t or bi in b.reach_from(t, cut_blocks=others)]
                    if hit and len(hit) < len(edges):
                        if guard is None or re.search(rx, show(ce)):
                            guard = (sb, show(ce))
                errs = set(C.err_exit_blocks(b))
                reaches_err = bool(b.reach_from(bi) & errs) or any(s2['k'] == 'assign' and s2['lhs']['l'] == 0 for s2 in b.blocks[bi]['s']) or b.kind == 'Closure'
                adaptors = [x for b2 in mirq.real_calls(b) for x in [b.expr_call(b2)]
                            if x[0] == 'call' and x[4].get('name') in ('or', 'map_err', 'ok_or', 'or_else', 'ok_or_else') and
                            any(y == e for a in x[2][1:] for y in walk(a))]
                inside_or = bool(adaptors)
                if inside_or:
                    # `value.or(Err(E))?`: the rejected condition is "value is Err/None", value being the adaptor's receiver
                    guard = (None, show(adaptors[0][2][0]))
                rec.site(b, bi, '%s guarded by %s' % (variant, (guard[1][:80] if guard else 'result adaptor' if inside_or else None)))
                rec.need(reaches_err or inside_or, 'guard-not-fatal/%s/%s' % (suf, variant), b, bi, '%s does not lead to an Err return' % variant)
                if guard:
                    rec.need(re.search(rx, guard[1]) is not None, 'guard-condition/%s/%s' % (suf, variant), b, bi,
                             '%s is raised under %s' % (variant, guard[1][:100]))
                    # Ok exits are not reachable from the failing edge
                    oks = [x for x in C.ok_exit_blocks(b) if x not in errs]
        rec.need(n >= nmin, 'guard-missing/%s/%s' % (suf, variant), f, None,
                 '%s no longer rejects with %s (%d site(s), expected %d)' % (suf.split('::')[-1], variant, n, nmin))
        rec.need(n <= nmin, 'guard-added/%s/%s' % (suf, variant), f, None,
                 '%s rejects with %s in %d places, %d were confirmed against the grammar: an additional rejection refuses well-formed input '
                 '(the instances confirmed on the reviewed tree are the reference)' % (suf.split('::')[-1], variant, n, nmin))
    # total number of rejection sites per function is the confirmed one (no unlisted rejections)
    listed = {}
    for suf, variant, rx, nmin in GUARDS:
        listed[suf] = listed.get(suf, 0) + nmin
    for suf, total in listed.items():
        f = fn_by_suffix(F, suf)
        bodies = [f] + [F.fns[c2] for c2 in F.children(f.path)]
        n = sum(len(mirq.agg_sites(b, r'^error::Error$')) for b in bodies)
        rec.need(n == total, 'rejections-changed/' + suf, f, None, '%s has %d rejection sites, %d are on file' % (suf.split('::')[-1], n, total))
    # non-canonical integers: both "0"-prefixed and "-0"-prefixed forms are tested on the way to DecodeLeadingZero
    pi = fn_by_suffix(F, 'BDecoder::parse_int')
    lits = set()
    for sb in pi.switches():
        ce, ts, o = pi.cond(sb)
        if ce[0] == 'call' and ce[4].get('name') in ('starts_with', 'eq') and pi.bool_edges(sb):
            tt, ff = pi.bool_edges(sb)
            lz = [bi for bi, si, e in mirq.agg_sites(pi, r'^error::Error$', 'DecodeLeadingZero')]
            if any(b in pi.reach_from(tt, cut_blocks=[sb]) for b in lz):
                subj = show(ce[2][0])
                for x in walk(ce):
                    if x[0] == 'str':
                        lits.add((x[1], 'from_utf8' in subj and 'strip' not in subj and 'trim' not in subj))
    rec.site(pi, None, 'prefixes leading to DecodeLeadingZero: %s' % sorted(lits))
    rec.need(('0', True) in lits and ('-0', True) in lits, 'leading-zero-forms', pi, None,
             'parse_int does not test the whole integer text for both the "0" and the "-0" prefix before accepting it: %s' % sorted(lits))
    # Ok exit of parse_int / parse_byte_str / parse_dict only past every guard of that function
    for suf, f in [(s_, p_) for s_ in ('BDecoder::parse_int', 'BDecoder::parse_byte_str', 'BDecoder::parse_dict') for p_ in fn_parts(F, s_)]:
        oks = [bi for bi, si, e in mirq.agg_sites(f, r'^std::result::Result$', 'Ok')]
        errs = [bi for bi, si, e in mirq.agg_sites(f, r'^error::Error$')]
        others = set(f.switches())
        adaptor_errs = set()
        for b2 in mirq.real_calls(f):
            x = f.expr_call(b2)
            if x[4].get('name') in ('or', 'ok_or', 'map_err', 'or_else', 'ok_or_else'):
                for bi, si, e in mirq.agg_sites(f, r'^error::Error$'):
                    if any(y == e for y in walk(x)):
                        adaptor_errs.add(bi)
        for eb in errs:
            if eb in adaptor_errs:
                continue
            for sb in f.switches():
                ce, ts, o = f.cond(sb)
                edges = set(list(ts.values()) + [o])
                hit = [t for t in edges if eb == t or eb in f.reach_from(t, cut_blocks=others)]
                if hit and len(hit) < len(edges):
                    r = f.reach_from(eb)
                    rec.need(not (r & set(oks)), 'ok-after-failed-guard/' + suf, f, eb, 'after the failing side of the guard %s the function can still return Ok' % show(ce)[:80])


def terminator_flag(f):
    """name of the "a terminating e is expected" parameter of a value-sequence scanner: the first bool parameter of a
    non-closure bcodec function that loops over the input iterator and returns a sequence"""
    if f.kind == 'Closure' or not f.path.startswith('bcodec::'):
        return None
    bools = C.params_of(f, r'^bool$')
    if not bools or not C.params_of(f, r'Enumerate<') or not f.has_loop():
        return None
    if not f.locals[0]['ty'].startswith('std::result::Result<std::vec::Vec<'):
        return None
    return bools[0][0]


@TABLE.rule('3', 'K1', 'termination evidence: exhaustion where a terminator is expected is an error; take_while scans test for end of input', floor=8)
def r3(cx, rec):
    F = cx.F
    # (a) loops over the input iterator with a with_end flag
    for f in F.user_fns():
        flag = terminator_flag(f)
        if flag is None:
            continue
        itp = {n for n, l, t in C.params_of(f, r'Enumerate<')}
        nexts = [bb for bb in mirq.real_calls(f) if (f.blocks[bb]['t'].get('callee') or '') == 'std::iter::Iterator::next' and access_path(f.expr_call(bb)[2][0]) in itp]
        for nb in nexts:
            for sb, t in f.outcome_edges(nb).get('none', []):
                # paths from exhaustion to return: what do they return when with_end is true?
                ok_on_exhaust_with_end = False
                for p in mirq.enumerate_paths(f, t, f.return_blocks()):
                    pf = mirq.path_facts(f, p)
                    if pf is None:
                        continue
                    we = [v for k, v in pf['atoms'].items() if k == flag]
                    ret = mirq.value_on_path(f, p, 0)
                    is_ok = ret[0] == 'agg' and ret[3] == 'Ok'
                    if is_ok and (not we or we[0] is True):
                        ok_on_exhaust_with_end = True
                rec.site(f, t, 'iterator exhausted: Ok returned even when a terminating "e" is expected: %s' % ok_on_exhaust_with_end)
                rec.need(not ok_on_exhaust_with_end, 'exhaustion-accepted/' + f.path, f, t,
                         'when the input ends inside a list/dictionary (with_end set) the scanner returns Ok instead of an error: '
                         'unterminated containers such as "li1e" or "d1:ai1e" are accepted')
    # (a2) the terminator flag is a constant at every call site: false only at the top level, true for nested containers
    tops_seen = {}
    for f in F.user_fns():
        params = [v['n'] for v in f.raw['vars'] if 'arg' in v]
        flag = terminator_flag(f)
        if flag is None:
            continue
        wi = params.index(flag)
        for g, gb in C.callers(F, f.path):
            a = g.expr_call(gb)[2][wi]
            c = const_of(a)
            top = (g.path == V.codec_fn(F, 'from_array').path or (g.trait or '') != '' or
                   not any(n2 for n2, l2, t2 in C.params_of(g, r'Enumerate<')))
            rec.site(g, gb, '%s(.., with_end=%s) from %s' % (f.name, show(a), g.name))
            tops_seen.setdefault(f.path, set()).add(g.path) if top else None
            rec.need(c is not None and a[0] == 'const' and bool(c[0]) == (not top), 'terminator-flag/%s<-%s' % (f.name, g.name), g, gb,
                     '%s calls %s with with_end=%s: %s' % (g.name, f.name, show(a),
                                                          'a stray "e" at the top level is accepted as the end of input' if top else 'a nested container is not required to end with "e"'))
    # the decoder's entry point runs the value scanner itself, at top level (flag false): it must not go through a nested
    # container parser, which expects -- and accepts -- a closing "e"
    top = V.codec_fn(F, 'from_array')
    vv = V.codec_fn(F, 'values_vector')
    direct = C.calls_to_fn(F, top, vv.path)
    others = [t for b, t in C.local_calls(F, top) if t != vv.path and F.fns[t].path.startswith('bcodec::bdecoder::')]
    rec.site(top, direct[0] if direct else None, 'entry point scans with the top-level flag: %s; other decoder calls: %s' % (bool(direct), others))
    rec.need(bool(direct) and not others, 'terminator-flag/entry', top, None,
             'the decoder entry point does not run the value scanner directly at top level (it calls %s): a stray "e" then ends '
             'decoding successfully and the rest of the input is ignored' % (others or 'nothing'))
    scan_rules(cx, rec)
    drained_then_read(cx, rec)


def drained_then_read(cx, rec):
    """`a.append(&mut b)` empties b: nothing afterwards may use b's length or content (an observation made with it would always
    see 0 / nothing -- e.g. the end-of-input lookup placed after the append instead of before)"""
    F = cx.F
    n = 0
    for f in F.user_fns():
        if not f.path.startswith('bcodec::') or f.kind == 'Closure':
            continue
        for bb in mirq.real_calls(f):
            e = f.expr_call(bb)
            if e[4].get('name') != 'append' or len(e[2]) != 2:
                continue
            src = e[2][1]
            idn = mirq._ident(src)
            if not idn or src[0] not in ('var', 'mvar'):
                continue
            n += 1
            after = set()
            for nb in f.succs(bb):
                after |= f.reach_from(nb)
            late = []
            for b2 in mirq.real_calls(f):
                if b2 in after and b2 != bb:
                    for x in walk(f.expr_call(b2), inl=False):
                        # the read itself (not a value computed earlier and only used here) happens after the append
                        if x[0] == 'call' and x[4].get('name') in ('len', 'is_empty', 'iter', 'as_slice', 'clone', 'first', 'last', 'get') and x[2] and \
                                mirq._ident(x[2][0]) == idn and x[3] in after and x[3] != bb:
                            late.append(x[3])
            rec.site(f, bb, 'append drains %s; later reads of it: %d' % (show(src)[:30], len(set(late))))
            for b2 in sorted(set(late))[:1]:
                rec.violation('read-after-drain/' + f.path, f, b2,
                              '%s is read after `append` moved its elements away: the value observed is always empty' % show(src)[:30])
    rec.site('bcodec', None, 'draining appends examined: %d' % n)


def scan_rules(cx, rec):
    """every take_while(!= T) scan runs unadapted to its terminator and is followed by an end-of-input test -> Err"""
    F = cx.F
    # (b) take_while scans
    for f in F.user_fns():
        if not f.path.startswith('bcodec::') or f.kind == 'Closure':
            continue
        tws = [bb for bb in mirq.real_calls(f) if f.expr_call(bb)[4].get('name') == 'take_while']
        for tb in tws:
            # the scan runs to its terminator: no adaptor cuts it short or skips input
            chain = []
            x = f.expr_call(tb)
            while x[0] == 'call' and x[2]:
                chain.append(x[4].get('name'))
                x = mirq.init_of(x[2][0]) if x[2][0][0] in ('var', 'mvar') else x[2][0]
            cut = [n for n in chain if n in ('take', 'skip', 'step_by', 'skip_while', 'map_while', 'filter', 'rev')]
            rec.need(not cut, 'scan-adapted/' + f.path, f, tb,
                     'the scan up to the terminator goes through %s: the terminator of a long (or otherwise selected) token is not consumed '
                     'and the following bytes are mis-read' % cut)
            # an end-of-input observation: nth()/next()/peek() on a clone of the iterator taken before the scan, tested for None -> Err
            obs = False
            for subj, sb, nt, st in mirq.option_tests(f):
                subj = mirq.init_of(subj)
                if subj[0] == 'call' and subj[4].get('name') in ('nth', 'next', 'peek', 'last'):
                    r = f.reach_from(nt, cut_blocks=[sb])
                    if (r & set(C.err_exit_blocks(f))) and not (r & set(bi for bi, si, e in mirq.agg_sites(f, r'^std::result::Result$', 'Ok'))):
                        obs = True
                        rec.site(f, sb, 'end-of-input observed by %s -> Err' % show(subj)[:70])
            # the scan may live in a helper whose callers make the observation (extract_int <- parse_int)
            if not obs:
                for g, gb in C.callers(F, f.path):
                    for subj, sb, nt, st in mirq.option_tests(g):
                        subj = mirq.init_of(subj)
                        if subj[0] == 'call' and subj[4].get('name') in ('nth', 'next', 'peek'):
                            r = g.reach_from(nt, cut_blocks=[sb])
                            if (r & set(C.err_exit_blocks(g))):
                                obs = True
                                rec.site(g, sb, 'end-of-input after %s observed by the caller -> Err' % f.name)
            rec.need(obs, 'scan-without-eof-test/' + f.path, f, tb,
                     'a take_while scan up to a terminator is not followed by a test that the terminator (rather than the end of input) stopped it')

