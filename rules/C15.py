"""C15 -- bencode encode/decode are mutually inverse and canonical (canonical-order and
delimiter-table clauses only).

Decides: (1) BEncoder::add_dict emits entries by iterating the vector on which an ascending key
comparator sort was applied, nothing reorders it in between; (2) the delimiter tables agree:
encoder literals (i..e, l..e, d..e, <len>:), the decoder's byte -> Delimiter map (i, l, d, e,
0-9) with its terminators (':' for string lengths, 'e' for integers) and the raw re-serialisers
of the deep finder; (3) siblings: each BValue variant is encoded by its own add_*, in
dictionaries the key is emitted as a byte string immediately before its value, and the length
prefix is len() of the very slice emitted."""
import re
import mirq
from mirq import show, access_path, AnchorMissing, const_of, walk
from rulekit import Table
from rules import common as C
from rules import vocab as V

TABLE = Table('C15')
NOT_DECIDED = ('the inverse laws themselves and "shortest decimal form" (value-level; i64::to_string / str::parse trusted).')

ENC = 'bcodec::bencoder::BEncoder'


ENC_SIG = {'add_int': r'^i64$', 'add_byte_str': r'^&\[u8\]$', 'add_list': r'^&std::vec::Vec<bcodec::bvalue::BValue>$',
           'add_dict': r'^&std::collections::HashMap<'}


def enc(F, role):
    """encoder method in the role add_int / add_byte_str / add_list / add_dict, identified by the type of the value it takes"""
    fs = [x for x in F.user_fns() if x.self_ty == ENC and x.kind == 'AssocFn' and x.argc == 2 and
          re.search(ENC_SIG[role], x.locals[2]['ty']) and x.locals[0]['ty'].startswith('&mut ')]
    return C.one(fs, 'encoder method taking %s' % ENC_SIG[role])


def enc_roles(F):
    """{function path: role} of the four appending methods"""
    return {enc(F, r).path: r for r in ENC_SIG}


def literals(f):
    """ordered string literals appended to the output in a function"""
    out = []
    for bb in mirq.real_calls(f):
        e = f.expr_call(bb)
        if e[4].get('name') == 'extend_from_slice':
            for x in walk(e[2][1]):
                if x[0] == 'str':
                    out.append((bb, x[1]))
        if e[4].get('name') == 'push' and len(e[2]) == 2 and const_of(e[2][1]) and e[2][1][3] == 'u8':
            out.append((bb, chr(const_of(e[2][1])[0])))
    return out


@TABLE.rule('1', 'K1+orientation', 'dictionary entries are emitted in ascending key order (sort on the map key, loop over the sorted vector)', floor=2)
def r1(cx, rec):
    F = cx.F
    D = enc(F, 'add_dict')
    sorts = [bb for bb in mirq.real_calls(D) if (D.expr_call(bb)[4].get('name') or '').startswith('sort')]
    rec.need(len(sorts) == 1, 'dict-not-sorted', D, None, 'dictionary entries are sorted %d times' % len(sorts))
    for sb in sorts:
        e = D.expr_call(sb)
        vec = e[2][0]
        clo = [x for x in e[2][1:] if x[0] in ('closure', 'fn') and F.fns.get(x[1]) is not None]
        asc = None
        if clo:
            asc = C.cmp_orientation(F, clo[0][1], '0')
            rec.site(F.fn(clo[0][1]), None, 'comparator ascending on key: %s' % asc)
        if e[4].get('name') in ('sort', 'sort_unstable'):
            asc = True
        if e[4].get('name') in ('sort_by_key', 'sort_unstable_by_key') and clo:
            cf = F.fn(clo[0][1])
            for bi, si, s in cf.assigns():
                if s['lhs']['l'] == 0:
                    asc = show(cf.expr_rvalue(s['rv'])).endswith('.0')
        rec.need(asc is True, 'dict-order', D, sb, 'dictionary keys are not sorted ascending by key (comparator orientation %s)' % asc)
        # vector comes from the map, the loop iterates the same vector after the sort, no reversal
        src = show(mirq.init_of(vec))
        rec.need('HashMap' in src and ('iter(%s)' % C.params_of(D)[-1][0]) in src, 'dict-source', D, sb, 'sorted vector is not the dictionary\'s entries: %s' % src[:80])
        its = [bb for bb in mirq.real_calls(D) if D.expr_call(bb)[4].get('name') in ('into_iter', 'iter', 'rev') and mirq._ident(D.expr_call(bb)[2][0]) == mirq._ident(vec)]
        its = [bb for bb in its if bb != sb]
        rec.site(D, sb, 'sorted vector iterated at %d site(s) after the sort' % len([b for b in its if b in D.reach_from(sb)]))
        rec.need(bool(its) and all(b in D.reach_from(sb) and sb not in D.reach_from(b) for b in its), 'dict-iterate-sorted', D, sb, 'the emission loop does not iterate the sorted vector after the sort')
        rec.need(not any(D.expr_call(bb)[4].get('name') in ('rev', 'reverse', 'shuffle', 'swap') for bb in mirq.real_calls(D)), 'dict-reordered', D, sb, 'entries are reordered after sorting')


@TABLE.rule('2', 'K6', 'delimiter tables of encoder, decoder and raw re-serialisers agree (i l d e : digits)', floor=8)
def r2(cx, rec):
    F = cx.F
    want = {'add_int': ['i', 'e'], 'add_list': ['l', 'e'], 'add_dict': ['d', 'e'], 'add_byte_str': [':']}
    for name, w in want.items():
        f = enc(F, name)
        got = [s for bb, s in literals(f)]
        rec.site(f, None, '%s writes literals %s' % (name, got))
        rec.need(got == w, 'encoder-literals/' + name, f, None, '%s writes %s, bencode needs %s' % (name, got, w))
        # every value gets its framing: no return path skips a delimiter (e.g. an early return for an empty container)
        for bb, lit in literals(f):
            ok, bad = C.must_pass(f, [bb], f.return_blocks())
            rec.need(ok, 'encoder-literal-skipped/%s/%s' % (name, lit), f, bb,
                     '%s can return without writing %r: some value (an empty list, say) is encoded without its framing and the '
                     'output no longer decodes to it' % (name, lit))
    # decoder map
    dm = [f for f in F.user_fns() if (f.trait or '').endswith('From') and (f.self_ty or '').endswith('Delimiter')]
    M = C.one(dm, 'byte -> Delimiter map')
    table = {}
    for sb in M.switches():
        e, ts, o = M.cond(sb)
        if C.is_param(M, e) and not M.bool_edges(sb):
            for v, t in ts.items():
                r = M.reach_from(t, cut_blocks=[sb])
                for bi, si, x in mirq.agg_sites(M, r'Delimiter$'):
                    if bi in r:
                        table[chr(v)] = x[3]
    lo = hi = None
    for sb in M.switches():
        e, ts, o = M.cond(sb)
        if e[0] == 'binop' and e[1] == 'Le':
            if const_of(e[2]) and C.is_param(M, e[3]):
                lo = const_of(e[2])[0]
            if const_of(e[3]) and C.is_param(M, e[2]):
                hi = const_of(e[3])[0]
    rec.site(M, None, 'decoder map %s digits %s..%s' % (table, lo, hi))
    rec.need(table == {'i': 'Int', 'l': 'List', 'd': 'Dict', 'e': 'End'}, 'decoder-map', M, None, 'decoder maps %s' % table)
    rec.need(lo == 48 and hi == 57, 'decoder-digits', M, None, 'digits range is %s..%s' % (lo, hi))
    # terminators in take_while closures
    for fn, ch in (('parse_byte_str', 58), ('extract_int', 101)):
        f = [V.codec_fn(F, fn)]
        tw = [bb for bb in mirq.real_calls(f[0]) if f[0].expr_call(bb)[4].get('name') == 'take_while']
        ok = False
        for bb in tw:
            clo = [x for x in f[0].expr_call(bb)[2][1:] if x[0] == 'closure']
            cf = F.fn(clo[0][1])
            for bi, si, s in cf.assigns():
                if s['lhs']['l'] == 0:
                    r = cf.expr_rvalue(s['rv'])
                    if r[0] == 'binop' and r[1] == 'Ne' and const_of(r[3]) and const_of(r[3])[0] == ch:
                        ok = True
                        rec.site(cf, bi, '%s scans until %r' % (fn, chr(ch)))
        rec.need(ok, 'terminator/' + fn, f[0], None, '%s does not scan up to %r' % (fn, chr(ch)))
    # raw re-serialisers
    # the two container re-serialisers of the finder: span copiers taking only (iterator, emit flag)
    raws = [x for x in F.user_fns() if x.path.startswith('bcodec::deep_finder::') and x.kind != 'Closure' and
            x.locals[0]['ty'].startswith('std::result::Result<std::vec::Vec<u8>') and x.argc == 2 and
            C.params_of(x, r'Enumerate<') and C.params_of(x, r'^bool$')]
    if len(raws) != 2:
        raise AnchorMissing('container re-serialisers (it, flag) -> Result<Vec<u8>>: %s' % [x.path for x in raws])
    seen_wrappers = []
    for f0 in raws:
        f = [f0]
        fn = f0.name
        w = None
        got = []
        for bi, si, s in f[0].assigns():
            for x in walk(f[0].expr_rvalue(s['rv'])):
                if x[0] == 'agg' and x[1] == 'array' and len(x[4]) == 1 and const_of(x[4][0][1]):
                    got.append(chr(const_of(x[4][0][1])[0]))
        for bb in mirq.real_calls(f[0]):
            e = f[0].expr_call(bb)
            if e[4].get('name') == 'push' and const_of(e[2][1]):
                got.append(chr(const_of(e[2][1])[0]))
        rec.site(f[0], None, '%s wraps with %s' % (fn, got))
        seen_wrappers.append(tuple(got))
        role = {('l', 'e'): 'raw_list', ('d', 'e'): 'raw_dict'}.get(tuple(got))
        rec.need(role is not None, 'raw-wrapper/' + fn, f[0], None, '%s wraps with %s, expected l..e or d..e' % (fn, got))
    rec.need(sorted(seen_wrappers) == [('d', 'e'), ('l', 'e')], 'raw-wrapper/pair', raws[0], None,
             'the two container re-serialisers wrap with %s, expected one l..e and one d..e' % sorted(seen_wrappers))
    for fn, w in (('parse_int', ['i', 'e']), ('parse_byte_str', [':'])):
        f = V.codec_fn(F, fn)
        got = []
        for bi, si, s in f.assigns():
            for x in walk(f.expr_rvalue(s['rv'])):
                if x[0] == 'agg' and x[1] == 'array' and len(x[4]) == 1 and const_of(x[4][0][1]) and x[4][0][1][0] == 'const':
                    got.append(chr(const_of(x[4][0][1])[0]))
        for bb in mirq.real_calls(f):
            e = f.expr_call(bb)
            if e[4].get('name') == 'push' and const_of(e[2][1]) and e[2][1][0] == 'const':
                got.append(chr(const_of(e[2][1])[0]))
        rec.site(f, None, '%s rebuilds raw form with %s' % (fn, got))
        rec.need(got == w, 'raw-rebuild/' + fn, f, None, '%s rebuilds the raw form with %s, expected %s' % (fn, got, w))


@TABLE.rule('3', 'K6', 'each BValue variant is encoded by its own add_*; dictionary key emitted right before its value; length prefix = len of the emitted slice', floor=9)
def r3(cx, rec):
    F = cx.F
    want = {'Int': 'add_int', 'ByteStr': 'add_byte_str', 'List': 'add_list', 'Dict': 'add_dict'}
    for name in ('add_list', 'add_dict'):
        f = enc(F, name)
        sw = [sb for sb in f.switches() if f.cond(sb)[0][0] == 'discr' and f.cond(sb)[0][2].endswith('bvalue::BValue')]
        rec.need(len(sw) == 1, 'variant-dispatch/' + name, f, None, '%s does not dispatch on the value kind' % name)
        for sb in sw:
            ve = f.variant_edges(sb)
            for v, tgt in ve.items():
                if v == '_':
                    continue
                reg = f.only_via_edge((sb, tgt)) | {tgt}
                ER = enc_roles(F)
                calls = [(bb, f.expr_call(bb)) for bb in mirq.real_calls(f) if bb in reg and f.expr_call(bb)[1] in ER]
                # emissions of the same loop iteration that precede the dispatch (a key hoisted out of the arms)
                nxt = [bb for bb in mirq.real_calls(f) if f.expr_call(bb)[1] == 'std::iter::Iterator::next' and sb in f.reach_from(bb) and bb in f.reach_from(sb)]
                if nxt:
                    between = f.reach_from(nxt[-1], cut_blocks=[sb])
                    pre = [(bb, f.expr_call(bb)) for bb in mirq.real_calls(f)
                           if bb in between and bb not in reg and f.expr_call(bb)[1] in ER and sb in f.reach_from(bb, cut_blocks=[nxt[-1]])]
                    ok_dom, _ = C.must_pass(f, [bb for bb, c in pre], [sb], start=nxt[-1]) if pre else (True, None)
                    if pre and ok_dom:
                        calls = pre + calls
                names = [ER[c[1]] for bb, c in calls]
                rec.site(f, tgt, '%s: %s -> %s' % (name, v, names))
                for bb, c in calls:
                    recv = c[2][0]
                    while recv[0] == 'call' and recv[1] in ER:
                        recv = recv[2][0]
                    rinit = mirq.init_of(recv)
                    okr = recv[0] in ('var', 'mvar') and rinit[0] == 'call' and rinit[1].endswith('BEncoder::new')
                    rec.need(okr, 'element-receiver/%s/%s' % (name, v), f, bb,
                             'an element of kind %s is appended to %s instead of the inner encoder created for this container: '
                             'its bytes land outside their position in the sequence' % (v, show(recv)[:40]))
                exp = (['add_byte_str'] if name == 'add_dict' else []) + [want[v]]
                rec.need(names == exp, 'variant-encoder/%s/%s' % (name, v), f, tgt, '%s encodes %s with %s (expected %s)' % (name, v, names, exp))
                for bb, c in calls:
                    if ER[c[1]] == want[v]:
                        arg = show(c[2][1])
                        if c is calls[-1][1]:
                            rec.need(('<%s>.0' % v) in arg, 'variant-payload/%s/%s' % (name, v), f, bb, '%s passes %s to %s' % (v, arg[-50:], want[v]))
                if name == 'add_dict' and calls:
                    karg = show(calls[0][1][2][1])
                    rec.need(karg.endswith('.0.0)') or '.0.0' in karg, 'dict-key/%s' % v, f, calls[0][0], 'key emitted for %s is %s' % (v, karg[-50:]))
    bs = enc(F, 'add_byte_str')
    ext = [bs.expr_call(bb) for bb in mirq.real_calls(bs) if bs.expr_call(bb)[4].get('name') == 'extend_from_slice']
    srcs = [show(e[2][1]) for e in ext]
    rec.site(bs, None, 'add_byte_str emits %s' % [s[-60:] for s in srcs])
    vp = C.params_of(bs)[-1][0]
    rec.need(len(ext) == 3 and ('len(%s)' % vp) in srcs[0].replace('core::slice::<impl [T]>::', '') and srcs[2] == vp, 'bytestr-length', bs, None,
             'byte string is not emitted as len(value) ":" value: %s' % [s[-50:] for s in srcs])
    ai = enc(F, 'add_int')
    ext = [show(ai.expr_call(bb)[2][1]) for bb in mirq.real_calls(ai) if ai.expr_call(bb)[4].get('name') == 'extend_from_slice']
    rec.site(ai, None, 'add_int emits %s' % [s[-50:] for s in ext])
    rec.need(len(ext) == 3 and ('to_string(%s)' % C.params_of(ai)[-1][0]) in ext[1], 'int-decimal', ai, None, 'integer is not emitted as i<to_string(value)>e')


@TABLE.rule('4', 'K7', 'the decoder\'s rejection guards are exactly the confirmed ones (shared with C16): nothing the encoder can emit is refused', floor=11)
def r4(cx, rec):
    from rules import C16
    C16.r2(cx, rec)


@TABLE.rule('5', 'K5b', 'integers are converted by one whole-text str::parse::<i64> (sign included): every value the encoder can write, '
            'i64::MIN included, is read back', floor=1)
def r5(cx, rec):
    F = cx.F
    ps = [f for f in F.user_fns() if f.path.startswith('bcodec::bdecoder::') and f.kind != 'Closure' and
          f.locals[0]['ty'].startswith('std::result::Result<(i64,')]
    P = C.one(ps, 'integer parser (returns Result<(i64, ..)>)')
    n = 0
    for bi, si, e in mirq.agg_sites(P, r'^std::result::Result$', 'Ok'):
        t = e[4][0][1]
        if not (t[0] == 'agg' and t[1] == 'tuple'):
            continue
        x = t[4][0][1]
        n += 1
        # peel error plumbing only: try(..), Result::or / map_err / ok_or(.., Err{..})
        while True:
            y = mirq.peel_ok(x)
            if y is not x:
                x = y
            elif x[0] == 'call' and x[4].get('name') in ('or', 'map_err', 'or_else') and x[2]:
                x = x[2][0]
            else:
                break
        okp = x[0] == 'call' and x[4].get('name') == 'parse' and (x[4].get('gargs') or [''])[0] == 'i64'
        src = show(x[2][0])[:80] if okp else show(x)[:80]
        whole = okp and not any(y[0] == 'call' and y[4].get('name') in ('strip_prefix', 'trim_start_matches', 'trim_start', 'split_at', 'get', 'index', 'abs')
                                for y in walk(x[2][0], inl=False))
        rec.site(P, bi, 'value = %s' % show(x)[:100])
        rec.need(okp and whole, 'int-conversion', P, bi,
                 'the decoded integer is %s, not str::parse::<i64> of the whole digit text: values at the edge of the range '
                 '(i64::MIN) that the encoder writes are not read back' % src)
    rec.need(n >= 1, 'int-parser-shape', P, None, 'integer parser does not return Ok((value, raw))')


@TABLE.rule('6', 'K4', 'the decoder cannot panic on anything the encoder writes (shared panic-site audit of C16)', floor=1)
def r6(cx, rec):
    from rules import C16
    C16.r1(cx, rec)


@TABLE.rule('7', 'K1', 'token scans run unadapted to their terminator (":" of a length prefix, "e" of an integer) and tell it from the end of '
            'input: strings and integers of every length the encoder writes are read back (shared with C16)', floor=2)
def r7(cx, rec):
    from rules import C16
    C16.scan_rules(cx, rec)
