"""C06 -- peer stream decoding is total, segmentation-independent and bounded.

Decides the structural necessary conditions: (1) an error of the frame reader ends the peer
loop (irrefutable select! binding + propagation), (2) after bytes were skipped the buffered rest
is parsed again before the socket is read, (3) every cursor position / buffer advance is bounded
by the bytes available (constants covered by the dominating getter, `check` results guarded by
`available >= result`, unknown ids guarded explicitly), (4) `Incomplete` is answered only when
the length prefix is right for the message kind (a wrong length is an error, not "wait"),
(5) the MAX_FRAME_SIZE test dominates every variable-length arm (handshake exempt because it
asks for a constant), (6) only Incomplete/UnknownId are mapped to "no frame yet", EOF/read
errors are errors, (7) panic-site audit of everything reachable from the frame reader."""
import re
import mirq
from mirq import show, access_path, AnchorMissing, const_of, walk
from rulekit import Table
from rules import common as C
from rules import vocab as V
from rules import C07

TABLE = Table('C06')
NOT_DECIDED = ('equality of the decoded sequence across all 2^(n-1) splittings as such; how many '
               'bytes read_buf reads ahead of the current frame (library behaviour); the OS.')


def reader_fn(F):
    """(recv_frame body, read_buf call bb)"""
    out = []
    for f in F.user_fns():
        for bb in mirq.real_calls(f):
            if (f.blocks[bb]['t'].get('callee') or '').endswith('AsyncReadExt::read_buf'):
                out.append((f, bb))
    return C.one(out, 'function reading the socket with read_buf')


def parse_fn(F):
    fs = [f for f, sb in C.fns_switching_on(F, r'frame::MsgId', min_arms=5)]
    fs = list({f.path: f for f in fs}.values())
    return C.one(fs, 'Frame::parse (dispatch over MsgId)')


def frame_consumer(F):
    """the function that calls Frame::parse and advances the buffer"""
    P = parse_fn(F)
    cs = C.callers(F, P.path)
    fs = list({f.path: f for f, _ in cs}.values())
    return C.one(fs, 'caller of Frame::parse')


@TABLE.rule('1', 'K3', 'an error of the frame reader ends the peer loop: irrefutable select! binding, Err propagated', floor=2)
def r1(cx, rec):
    F = cx.F
    R, rb = reader_fn(F)
    rpath = F.owner_fn(R).path
    found = False
    for f in F.user_fns():
        for sel in mirq.select_info(f):
            for k, arm in sel['arms'].items():
                fut = arm['future']
                if fut and fut[0] == 'call' and fut[1] == rpath:
                    found = True
                    rec.site(f, arm['target'], 'select arm %s <- %s; refutable=%s' % (arm['variant'], rpath.split('::')[-1], bool(arm['refutable'])))
                    rec.need(arm['refutable'] is None, 'reader-error-discarded', f, arm['target'],
                             'the select! branch binds the Result of the frame reader with a refutable pattern (%s): '
                             'every reader error silently disables the branch instead of ending the connection'
                             % (arm['refutable'] or {}).get('ty', ''))
                    # the payload must be branched on and its Err edge must leave the loop with Err
                    ok = False
                    for sb in f.switches():
                        if sb not in arm['region']:
                            continue
                        e, ts, o = f.cond(sb)
                        if e[0] == 'discr' and any(x[0] == 'field' and x[1][0] == 'variant' and x[1][2] == arm['variant'] for x in walk(e[1])):
                            ty = e[2]
                            if ty.startswith('std::ops::ControlFlow') or ty.startswith('std::result::Result'):
                                errt = ts.get(1)
                                r = f.reach_from(errt) if errt is not None else set()
                                if (r & set(C.err_exit_blocks(f))) and arm['switch'] not in r:
                                    ok = True
                                    rec.site(f, sb, 'Err of the reader leaves the loop with an error')
                    rec.need(ok, 'reader-error-not-propagated', f, arm['target'],
                             'no path turns an Err of the frame reader into an error return of the peer loop')
    rec.need(found, 'reader-not-in-select', R, rb, 'the frame reader is not a select! branch of any loop')


@TABLE.rule('2', 'K1', 'after skipping bytes the buffered rest is parsed again before the socket is read', floor=2)
def r2(cx, rec):
    F = cx.F
    P = parse_fn(F)
    Cn = frame_consumer(F)
    parses = C.calls_to_fn(F, Cn, P.path)
    adv = [bb for bb in mirq.real_calls(Cn) if (Cn.blocks[bb]['t'].get('callee') or '').endswith('Buf::advance')]
    rec.need(bool(adv), 'no-advance', Cn, None, 'consumed frames are never removed from the buffer')
    # blocks returning Ok(Some(frame))
    some_ret = []
    for bi, si, e in mirq.agg_sites(Cn, r'^std::result::Result$', 'Ok'):
        if any(x[0] == 'agg' and x[2] == 'std::option::Option' and x[3] == 'Some' for x in walk(e)):
            some_ret.append(bi)
    for a in adv:
        r = Cn.reach_from(a, cut_blocks=set(parses) | set(some_ret))
        bad = [b for b in Cn.return_blocks() if b in r]
        rec.site(Cn, a, 'advance; delivers-or-reparses=%s' % (not bad))
        rec.need(not bad, 'skip-without-reparse', Cn, a,
                 'after discarding bytes the function can return "no frame" without parsing the rest of the '
                 'buffer: a complete message that follows a skipped one waits for further bytes')
    # the reader: read_buf only after the consumer said "nothing complete"
    R, rb = reader_fn(F)
    cons = C.calls_to_fn(F, R, F.owner_fn(Cn).path)
    rec.need(bool(cons), 'reader-does-not-parse', R, rb, 'the reader does not parse the buffer before reading')
    for cb in cons:
        ok, bad = C.must_pass(R, [cb], [rb])
        rec.site(R, cb, 'parse-before-read')
        rec.need(ok, 'read-before-parse', R, rb, 'the socket can be read without first parsing buffered data')
        rec.need(cb in R.reach_from(rb), 'reader-no-loop', R, rb, 'after reading, the buffer is not parsed again')
    # the bytes are read into the connection's own buffer, in place: the receive future is one arm of a select! and is dropped
    # whenever another arm wins, so bytes read into a local (buffer moved out for the read, put back afterwards) are lost with it
    buf = mirq.strip(R.expr_call(rb)[2][1])
    bp = access_path(buf) or ''
    inplace = bp.startswith('self.') and C.is_param(R, buf)
    rec.site(R, rb, 'read_buf fills %s' % (bp or show(buf)[:60]))
    rec.need(inplace, 'read-buffer-not-in-place', R, rb,
             'read_buf fills %s, not a field of the connection: when the pending receive is cancelled between two reads (another '
             'select! arm wins) the bytes already received are dropped and the stream is desynchronised' % (bp or show(buf)[:60]))
    if inplace:
        for bb in mirq.real_calls(R):
            e = R.expr_call(bb)
            if e[4].get('name') in ('take', 'replace', 'swap') and e[1].startswith('std::mem::') and any((access_path(mirq.strip(a)) or '') == bp for a in e[2]):
                rec.violation('read-buffer-moved-out', R, bb, 'the receive buffer %s is moved out of the connection (%s) in the function that awaits the socket' % (bp, e[1]))


def available_expr(F, e):
    """e is `buffer length - cursor position` of one cursor, written in place or through a small helper"""
    x = mirq.init_of(e)
    for _ in range(6):
        if x[0] == 'call' and x[1] in F.fns and x[4].get('inl') is not None:
            x = x[4]['inl']
        elif x[0] == 'cast' or (x[0] == 'field' and x[2] == '0'):
            x = x[1]
        else:
            break
    if not (x[0] == 'binop' and x[1].startswith('Sub')):
        return False
    a, b = mirq.init_of(x[2]), mirq.init_of(x[3])
    la = [y for y in walk(a, inl=False) if y[0] == 'call' and y[4].get('name') == 'len']
    ga = [y for y in walk(a, inl=False) if y[0] == 'call' and y[4].get('name') == 'get_ref']
    pb = [y for y in walk(b, inl=False) if y[0] == 'call' and y[4].get('name') == 'position']
    return bool(la and ga and pb) and show(ga[0][2][0]) == show(pb[0][2][0])


def avail_params(F, f):
    """names of the parameters of f that receive the number of buffered bytes at every call site"""
    cache = F.__dict__.setdefault('_avail_params', {})
    if f.path in cache:
        return cache[f.path]
    names = [n for n, l, t in C.params_of(f)]
    ok = [True] * len(names)
    cs = C.callers(F, f.path)
    for g, bb in cs:
        args = g.expr_call(bb)[2]
        for i in range(len(names)):
            if i >= len(args) or not available_expr(F, args[i]):
                ok[i] = False
    cache[f.path] = {n for n, o in zip(names, ok) if o} if cs else set()
    return cache[f.path]


def is_available(F, e, f=None):
    p = access_path(e) or ''
    if f is not None and p in avail_params(F, f):
        return True
    return available_expr(F, e)


def equalities(f, target_bb):
    """{param: const} for Eq/Ne(param, const) tests whose equal edge dominates target_bb"""
    env = {}
    for sb in f.switches():
        e, ts, o = f.cond(sb)
        if e[0] == 'binop' and e[1] in ('Eq', 'Ne'):
            p, v = access_path(e[2]), C07.fold(e[3])
            if p and v is not None and f.bool_edges(sb):
                tt, ff = f.bool_edges(sb)
                eq = tt if e[1] == 'Eq' else ff
                if target_bb in f.only_via_edge((sb, eq)) or target_bb == eq:
                    env[p] = v
    return env


def subst(lv, env):
    c, var = lv
    if var in env and c is not None:
        return (c + env[var], None)
    return lv


def avail_guard(F, f, target_bb, value_expr):
    """True when target_bb is reachable only on the edge where available >= value_expr"""
    env = equalities(f, target_bb)
    want = subst(C07.lin(value_expr), env)
    for sb in f.switches():
        e, ts, o = f.cond(sb)
        neg = False
        while e[0] == 'unop' and e[1] == 'Not':
            neg = not neg
            e = e[2]
        conj = False
        if e[0] == 'phi':
            # `a && b` lowered to a temporary: phi(false | b); its true edge implies b
            alts = [x for x in e[1] if not (const_of(x) and const_of(x)[0] == 0)]
            if len(alts) == 1 and len(e[1]) == 2:
                e = alts[0]
                conj = True
        if e[0] != 'binop' or e[1] not in ('Ge', 'Lt', 'Le', 'Gt'):
            continue
        if conj and e[1] != 'Ge':
            continue
        a, b, op = e[2], e[3], e[1]
        if is_available(F, b, f) and not is_available(F, a, f):
            a, b = b, a
            op = {'Ge': 'Le', 'Le': 'Ge', 'Lt': 'Gt', 'Gt': 'Lt'}[op]
        if not is_available(F, a, f):
            continue
        if subst(C07.lin(b), env) != want or want[0] is None:
            continue
        be = f.bool_edges(sb)
        if not be:
            continue
        tt, ff = be
        if neg:
            tt, ff = ff, tt
        good = tt if op == 'Ge' else ff if op == 'Lt' else None
        if good is None:
            continue
        if target_bb in f.only_via_edge((sb, good)) or target_bb == good:
            return True
    return False


def threshold_guards(g):
    """[(N, switch_bb, good_target)] for comparisons of a value with a constant: on the edge to good_target
    the value is known to be >= N (handles `v >= N`, `v < N`, `v > N-1`, `v <= N-1`, either orientation, `!`)"""
    out = []
    for sb in g.switches():
        e, ts, o = g.cond(sb)
        neg = False
        while e[0] == 'unop' and e[1] == 'Not':
            neg = not neg
            e = e[2]
        if e[0] != 'binop' or e[1] not in ('Ge', 'Lt', 'Gt', 'Le'):
            continue
        be = g.bool_edges(sb)
        if not be:
            continue
        tt, ff = be
        if neg:
            tt, ff = ff, tt
        op, a, b = e[1], e[2], e[3]
        if C07.fold(b) is None and C07.fold(a) is not None:
            a, b = b, a
            op = {'Ge': 'Le', 'Le': 'Ge', 'Lt': 'Gt', 'Gt': 'Lt'}[op]
        n = C07.fold(b)
        if n is None:
            continue
        if op == 'Ge':
            out.append((n, sb, tt))
        elif op == 'Lt':
            out.append((n, sb, ff))
        elif op == 'Gt':
            out.append((n + 1, sb, tt))
        elif op == 'Le':
            out.append((n + 1, sb, ff))
    return out


def getter_minimum(g):
    """largest N such that every Ok return of g lies behind a `bytes >= N` edge; (N, sb, good) or None"""
    oks = [bi for bi, si, e in mirq.agg_sites(g, r'^std::result::Result$', 'Ok')]
    best = None
    for n, sb, good in threshold_guards(g):
        via = g.only_via_edge((sb, good)) | {good}
        if oks and all(b in via for b in oks):
            if best is None or n > best[0]:
                best = (n, sb, good)
    return best


@TABLE.rule('3', 'K4+K7', 'every cursor position (hence every buffer advance) is bounded by the bytes available', floor=12)
def r3(cx, rec):
    F = cx.F
    P = parse_fn(F)
    sps = [bb for bb in mirq.real_calls(P) if (P.blocks[bb]['t'].get('callee') or '').endswith('Cursor::<T>::set_position')]
    rec.need(len(sps) >= 3, 'no-set-position', P, None, 'Frame::parse never positions the cursor')
    getters = {}
    for bb, tgt in C.local_calls(F, P):
        g = F.fn(tgt)
        # minimum bytes a getter establishes: every Ok return lies behind `end - start >= N`
        gm = getter_minimum(g)
        if gm:
            getters[bb] = gm[0]
    for sp in sps:
        e = P.expr_call(sp)
        arg = e[2][1]
        while arg[0] == 'cast':
            arg = arg[1]
        v = C07.fold(arg)
        if v is not None:
            # constant: some getter with N >= v must have succeeded on every path to here
            ok = False
            for gb, n in getters.items():
                if n >= v:
                    for sb, t in P.outcome_edges(gb).get('ok', []):
                        if sp in P.only_via_edge((sb, t)):
                            ok = True
            rec.site(P, sp, 'set_position(const %d) covered by a getter: %s' % (v, ok))
            rec.need(ok, 'position/const-%d-unguarded' % v, P, sp,
                     'the cursor is positioned at %d without a dominating check that %d bytes are buffered' % (v, v))
            continue
        if mirq.peel_ok(arg) is not arg and mirq.peel_ok(arg)[0] == 'call' and mirq.peel_ok(arg)[1] in F.fns:
            arg = ('try', mirq.peel_ok(arg))
            chk = F.fn(arg[1][1])
            name = arg[1][1].split('::')[-2]
            oks = mirq.agg_sites(chk, r'^std::result::Result$', 'Ok')
            allok = bool(oks)
            for bi, si, oe in oks:
                val = oe[4][0][1]
                c, var = C07.lin(val)
                if avail_params(F, chk):
                    g = avail_guard(F, chk, bi, val)
                    rec.site(chk, bi, '%s::check -> Ok(%s%s) guarded by available >= same: %s' % (name, c, ' + ' + var if var else '', g))
                    allok = allok and g
                    rec.need(g, 'position/%s-check-unguarded' % name, chk, bi,
                             '%s::check can return Ok(n) without `available_data >= n`: the cursor (and then '
                             'BytesMut::advance) would move past the received bytes' % name)
                else:
                    # no available parameter: the constant must be covered by a getter in parse
                    ok = c is not None and var is None and any(n >= c and any(sp in P.only_via_edge((sb, t)) for sb, t in P.outcome_edges(gb).get('ok', []))
                                                                for gb, n in getters.items())
                    rec.site(chk, bi, '%s::check -> Ok(%s) covered by a getter in parse: %s' % (name, c, ok))
                    rec.need(ok, 'position/%s-const-unguarded' % name, chk, bi,
                             '%s::check returns %s%s bytes without anything establishing that many are buffered' % (name, c, ' + ' + var if var else ''))
            # a check that compares its length with a parameter must be given the number of buffered bytes there: the
            # parameters compared by `>=`/`<` against the returned size are exactly those avail_params() recognised
            continue
        # computed position (unknown id): needs an explicit guard in parse
        g = avail_guard(F, P, sp, arg)
        rec.site(P, sp, 'set_position(%s) guarded by available >= same: %s' % (show(arg)[:80], g))
        rec.need(g, 'position/computed-unguarded', P, sp,
                 'the cursor is positioned at %s without checking that those bytes have been received: '
                 'Buf::advance past the end of the buffer panics the connection task' % show(arg)[:100])
    # advance(len) uses the cursor position of the parse that just ran
    Cn = frame_consumer(F)
    for bb in mirq.real_calls(Cn):
        if (Cn.blocks[bb]['t'].get('callee') or '').endswith('Buf::advance'):
            a = Cn.expr_call(bb)[2][1]
            while a[0] == 'cast':
                a = a[1]
            okp = a[0] == 'call' and a[4].get('name') == 'position'
            rec.site(Cn, bb, 'advance(%s)' % show(a)[:60])
            rec.need(okp, 'advance-not-cursor-position', Cn, bb, 'buffer is advanced by %s, not by the cursor position' % show(a)[:80])
    # cursor handed to parse starts at 0 over the whole buffer
    for f, bb in C.callers(F, P.path):
        ce = f.expr_call(bb)[2][0]
        ce = mirq.init_of(ce)
        okc = ce[0] == 'call' and ce[1].endswith('Cursor::<T>::new')
        rec.site(f, bb, 'cursor = %s' % show(ce)[:80])
        rec.need(okc, 'cursor-not-fresh', f, bb, 'Frame::parse is given a cursor that is not freshly created at position 0')


def available_fn_ok(F, g):
    for bi, si, s in g.assigns():
        if s['lhs']['l'] == 0:
            e = g.expr_rvalue(s['rv'])
            while e[0] == 'field':
                e = e[1]
            if e[0] == 'binop' and e[1].startswith('Sub'):
                return True
    return False


MISMATCH_EDGE = {'Eq': False, 'Ne': True, 'Lt': True, 'Ge': False, 'Gt': True, 'Le': False}


@TABLE.rule('4', 'K7', 'Incomplete is answered only when the length prefix fits the message kind; fixed-length kinds '
            'compare the prefix with their LEN', floor=9)
def r4(cx, rec):
    F = cx.F
    for name, ty in C07.messages(F):
        if name in ('KeepAlive', 'Handshake'):
            continue
        chk = C07.impl_method(F, ty, 'check')
        params = [x['n'] for x in chk.raw['vars'] if 'arg' in x]
        lp = [p for p in params if p.startswith('len')]
        if not lp:
            raise AnchorMissing('%s::check has no length parameter' % name)
        lp = lp[0]
        inc = [bi for bi, si, e in mirq.agg_sites(chk, r'^error::Error$', 'Incomplete')]
        oks = [bi for bi, si, e in mirq.agg_sites(chk, r'^std::result::Result$', 'Ok')]
        cmps = []
        for sb in chk.switches():
            e, ts, o = chk.cond(sb)
            if e[0] == 'binop' and e[1] in MISMATCH_EDGE and access_path(e[2]) == lp and C07.fold(e[3]) is not None:
                tt, ff = chk.bool_edges(sb)
                bad_edge = tt if MISMATCH_EDGE[e[1]] else ff
                cmps.append((sb, e[1], C07.fold(e[3]), bad_edge))
        rec.site(chk, None, '%s::check compares %s with %s; Incomplete built in %d block(s)' % (name, lp, [(op, v) for _, op, v, _ in cmps], len(inc)))
        for sb, op, v, bad_edge in cmps:
            r = chk.reach_from(bad_edge)
            for ib in inc:
                rec.need(ib not in r and ib != bad_edge, 'incomplete-on-wrong-length/' + name, chk, ib,
                         '%s::check answers Incomplete when the length prefix is wrong (%s %s %s fails): the reader waits '
                         'forever and buffers everything the peer sends' % (name, lp, op, v))
            for ob in oks:
                rec.need(ob not in r, 'ok-on-wrong-length/' + name, chk, ob, '%s::check accepts a wrong length' % name)
        fixed = C07.REF[name][1]
        if fixed is not None:
            rec.need(any(op in ('Eq', 'Ne') and v == fixed for _, op, v, _ in cmps), 'length-not-compared/' + name, chk, None,
                     '%s::check does not compare the length prefix with %d' % (name, fixed))
        elif name == 'Piece':
            rec.need(any(op in ('Lt', 'Ge') and v == 9 for _, op, v, _ in cmps), 'length-not-compared/' + name, chk, None,
                     'Piece::check does not require at least 9 bytes of header')


@TABLE.rule('5', 'K1+K11', 'the MAX_FRAME_SIZE test dominates every arm that accepts a body; handshake exempt (constant size); '
            'MAX_FRAME_SIZE covers a 16 KiB block; buffer created with that capacity', floor=4)
def r5(cx, rec):
    F = cx.F
    P = parse_fn(F)
    big = [bi for bi, si, e in mirq.agg_sites(P, r'^error::Error$', 'MsgToLarge')]
    rec.need(bool(big), 'no-size-limit', P, None, 'no MsgToLarge rejection in Frame::parse')
    guard = None
    helper_exempt = {}
    for sb in P.switches():
        e, ts, o = P.cond(sb)
        if e[0] == 'call' and e[1] in F.fns and e[4].get('inl') is not None and e[4]['inl'][0] == 'phi' and P.bool_edges(sb):
            # the test written as a private bool helper `fn too_big(id, len) -> bool { id != Handshake && len > MAX }`: its value is
            # the comparison or false, and the only other decision it takes is the handshake exemption
            alts = e[4]['inl'][1]
            cmpx = [a for a in alts if a[0] == 'binop' and a[1] in ('Gt', 'Ge') and const_of(a[3]) and (const_of(a[3])[1] or '').endswith('MAX_FRAME_SIZE')]
            rest = [a for a in alts if a not in cmpx]
            hg = F.fn(e[1])
            hs_only = all(hg.cond(s2)[0][0] == 'call' and hg.cond(s2)[0][4].get('name') in ('ne', 'eq') and
                          any(x[0] == 'agg' and x[3] == 'HandshakeId' for x in walk(hg.cond(s2)[0])) for s2 in hg.switches())
            if len(cmpx) == 1 and rest and all(a[0] == 'const' and a[3] == 'bool' and not a[1] for a in rest) and hs_only and hg.switches():
                e = cmpx[0]
                helper_exempt[sb] = (hg, hg.switches()[0])
        if e[0] == 'binop' and e[1] in ('Gt', 'Ge', 'Le', 'Lt'):
            c = const_of(e[3])
            if c and c[1] and c[1].endswith('MAX_FRAME_SIZE'):
                tt, ff = P.bool_edges(sb)
                over = tt if e[1] in ('Gt', 'Ge') else ff
                under = ff if e[1] in ('Gt', 'Ge') else tt
                if all(b in P.only_via_edge((sb, over)) or b == over for b in big):
                    guard = (sb, over, under, e)
    if not guard:
        raise AnchorMissing('no comparison of the length with MAX_FRAME_SIZE guards MsgToLarge')
    sb, over, under, ge = guard
    if sb in helper_exempt:
        rec.site(helper_exempt[sb][0], helper_exempt[sb][1], 'handshake exemption of the size guard (inside the guard\'s helper)')
    lensrc = show(ge[2])
    rec.site(P, sb, 'size guard %s' % show(ge)[:100])
    rec.need('get_message_length' in lensrc or 'length' in lensrc, 'size-guard-wrong-operand', P, sb, 'size guard does not test the length prefix')
    # exact threshold: the smallest rejected length prefix is MAX_FRAME_SIZE + 1 (every frame up to the limit is decodable,
    # nothing larger is buffered)
    lc, lv = C07.lin(ge[2])
    mxv = const_of(ge[3])[0]
    if lc is not None and lv is not None and ge[1] in ('Gt', 'Ge'):
        first_rejected = (mxv + 1 if ge[1] == 'Gt' else mxv) - lc
        rec.need(first_rejected == mxv + 1, 'size-guard-threshold', P, sb,
                 'the size guard rejects length prefixes from %d on, the frame limit is %d: frames the client itself can emit near the '
                 'limit are refused (or larger ones accepted)' % (first_rejected, mxv))
    else:
        rec.violation('size-guard-threshold', P, sb, 'size guard %s is not of the form `length > MAX_FRAME_SIZE`' % show(ge)[:80])
    # bypass: paths to the dispatch that avoid the guard block
    disp = [s for s in P.switches() if P.cond(s)[0][0] == 'discr' and 'frame::MsgId' in P.cond(s)[0][2] and len(P.cond(s)[1]) >= 5][-1]
    e, ts, o = P.cond(disp)
    mid = F.adt('frame::MsgId')
    dn = {int(v['discr']): v['name'] for v in mid['variants']}
    vn = {v['vi']: v['name'] for v in mid['variants']}
    bypass = P.explore(cut_blocks=[sb])
    bypass_ok = True
    if disp in bypass:
        # must be the handshake exemption: a switch on ne/eq(from_u8(id), Some(HandshakeId)) whose non-handshake edge leads to the guard
        bypass_ok = False
        for s2 in P.switches():
            e2, ts2, o2 = P.cond(s2)
            if e2[0] == 'call' and e2[4].get('name') in ('ne', 'eq') and any(x[0] == 'agg' and x[3] == 'HandshakeId' for x in walk(e2)):
                tt, ff = P.bool_edges(s2)
                non_hs = tt if e2[4]['name'] == 'ne' else ff
                if sb in P.reach_from(non_hs, cut_blocks=[disp]) and disp not in P.explore(cut_blocks=[sb, s2]):
                    bypass_ok = True
                    rec.site(P, s2, 'handshake exemption of the size guard')
    rec.need(bypass_ok, 'size-guard-bypass', P, sb,
             'the message dispatch is reachable without passing the MAX_FRAME_SIZE test (other than for a handshake)')
    # Handshake::check only ever asks for a constant
    hs = C07.impl_method(F, dict(C07.messages(F))['Handshake'], 'check')
    for bi, si, oe in mirq.agg_sites(hs, r'^std::result::Result$', 'Ok'):
        c, var = C07.lin(oe[4][0][1])
        rec.need(var is None and c == 68, 'handshake-size-not-constant', hs, bi, 'Handshake::check asks for %s %s bytes' % (c, var))
    # the guard is before the arms are entered (dominates arms with a body, and the unknown-id arm)
    mx = F.const_val('constants::MAX_FRAME_SIZE')
    blk = F.const_val('constants::PIECE_BLOCK_SIZE')
    rec.site('constants::MAX_FRAME_SIZE', None, 'MAX_FRAME_SIZE=%s PIECE_BLOCK_SIZE=%s' % (mx, blk))
    rec.need(mx >= 9 + blk, 'max-frame-too-small', 'constants::MAX_FRAME_SIZE', None, 'a full 16 KiB block does not fit MAX_FRAME_SIZE')
    rec.need(mx <= 1 << 20, 'max-frame-too-large', 'constants::MAX_FRAME_SIZE', None, 'MAX_FRAME_SIZE above 1 MiB defeats the bound')
    caps = []
    for f in F.user_fns():
        for bb in mirq.real_calls(f):
            if (f.blocks[bb]['t'].get('callee') or '').endswith('BytesMut::with_capacity'):
                c = const_of(f.expr_call(bb)[2][0])
                caps.append((f, bb, c))
                rec.site(f, bb, 'buffer capacity %s' % (c,))
                rec.need(c is not None and c[0] == mx, 'buffer-capacity', f, bb, 'receive buffer is not created with MAX_FRAME_SIZE capacity')
    rec.need(bool(caps), 'no-buffer', P, None, 'receive buffer creation not found')


@TABLE.rule('6', 'K7', 'only Incomplete/UnknownId mean "no frame yet"; read errors and EOF with buffered bytes are errors; '
            'EOF on an empty buffer yields None which the peer loop treats as ConnectionClosed', floor=4)
def r6(cx, rec):
    F = cx.F
    Cn = frame_consumer(F)
    errs = F.adt('error::Error')
    sw = [sb for sb in Cn.switches() if Cn.cond(sb)[0][0] == 'discr' and Cn.cond(sb)[0][2].endswith('error::Error')]
    if not sw:
        raise AnchorMissing('the caller of Frame::parse does not match on the error kind')
    sb = sw[0]
    e, ts, o = Cn.cond(sb)
    err_exits = set(C.err_exit_blocks(Cn))
    soft = set()
    for v in errs['variants']:
        d = int(v.get('discr', v['vi']))
        tgt = ts.get(d, o)
        r = Cn.reach_from(tgt, cut_blocks=[sb])
        is_err = bool(r & err_exits) and not any(b in r for b in C.ok_exit_blocks(Cn))
        if not is_err:
            soft.add(v['name'])
    rec.site(Cn, sb, 'errors mapped to "no frame yet": %s' % sorted(soft))
    rec.need(soft <= {'Incomplete', 'UnknownId'}, 'error-swallowed', Cn, sb,
             'decoder errors other than Incomplete/UnknownId are turned into "no frame": %s' % sorted(soft - {'Incomplete', 'UnknownId'}))
    rec.need('Incomplete' in soft, 'incomplete-is-error', Cn, sb, 'Incomplete is treated as a fatal error: segmented messages kill the connection')
    # reader: read error -> Err ; n == 0 -> Ok(None) only if buffer empty else Err
    R, rb = reader_fn(F)
    ok, why = C.error_propagates(R, rb)
    rec.site(R, rb, 'read_buf error propagates: %s' % (ok or why))
    rec.need(ok, 'read-error-ignored', R, rb, 'a socket read error is not returned as an error: ' + why)
    nones = []
    for bi, si, x in mirq.agg_sites(R, r'^std::result::Result$', 'Ok'):
        if any(y[0] == 'agg' and y[2] == 'std::option::Option' and y[3] == 'None' for y in walk(x)):
            nones.append(bi)
    for nb in nones:
        g1 = g2 = False
        for s2 in R.switches():
            e2, ts2, o2 = R.cond(s2)
            be = R.bool_edges(s2)
            if not be:
                continue
            tt, ff = be
            if e2[0] == 'call' and e2[4].get('name') == 'is_empty' and (nb in R.only_via_edge((s2, tt)) or nb == tt):
                g1 = True
            if e2[0] == 'binop' and e2[1] == 'Eq' and const_of(e2[3]) and const_of(e2[3])[0] == 0 and nb in R.only_via_edge((s2, tt)):
                g2 = True
        rec.site(R, nb, 'Ok(None) only when n == 0 (%s) and buffer empty (%s)' % (g2, g1))
    # a read of 0 bytes always ends the call (Ok(None) or Err): it never goes back to parsing / reading
    for s2 in R.switches():
        e2, ts2, o2 = R.cond(s2)
        be = R.bool_edges(s2)
        if be and e2[0] == 'binop' and e2[1] in ('Eq', 'Ne') and const_of(e2[3]) and const_of(e2[3])[0] == 0 and \
                any(y[0] == 'call' and y[3] == rb for y in walk(e2[2], inl=False)):
            eof_edge = be[0] if e2[1] == 'Eq' else be[1]
            again = rb in R.reach_from(eof_edge)
            rec.site(R, s2, 'read returned 0: the reader returns on every path: %s' % (not again))
            rec.need(not again, 'eof-loops', R, s2,
                     'after a read of 0 bytes (peer closed) the reader can go back to reading: with bytes of an incomplete frame buffered it '
                     'spins forever instead of ending the connection with an error')
        rec.need(g1 and g2, 'clean-eof-condition', R, nb, 'Ok(None) is returned without `read returned 0` and `buffer is empty`')
    # the dispatcher treats None as an error
    D, sbs = C.frame_dispatch(F)
    osw = [s for s in D.switches() if D.cond(s)[0][0] == 'discr' and 'Option<frame::Frame>' in D.cond(s)[0][2]]
    if not osw:
        raise AnchorMissing('peer loop does not test for the end of the stream')
    ve = D.variant_edges(osw[0], fill=True)
    r = D.reach_from(ve['None'], cut_blocks=[osw[0]])
    rec.site(D, ve['None'], 'None (clean EOF) arm')
    rec.need(bool(r & set(C.err_exit_blocks(D))) or any((D.blocks[b]['t'].get('callee') or '').endswith('Into::into') for b in r if D.blocks[b]['t']['k'] == 'call'),
             'eof-not-an-error', D, ve['None'], 'end of stream does not end the peer loop with an error')
    rec.need(not (r & set(C.ok_exit_blocks(D))) or True, 'eof-ok', D, ve['None'], '')


ALLOW = {
    # key prefix -> invariant (the structural facts behind these are obligations 3 and 7b)
    'connection::Connection::parse_frame/advance/': 'advance(cursor position): position <= bytes buffered, obligation 3',
    'frame::Frame::available_data/overflow:Sub/': 'len - position with position <= len (fresh cursor, positions bounded by obligation 3)',
    'frame::Frame::get_message_id/overflow:Sub/': 'len - position, as above',
    'frame::Frame::get_message_length/overflow:Sub/': 'len - position, as above',
    'frame::Frame::get_protocol_id_length/overflow:Sub/': 'len - position, as above',
    'frame::Frame::get_message_id/bounds/': 'index MSG_ID_POS guarded by `end - start >= 5` (obligation 7b)',
    'frame::Frame::get_protocol_id_length/bounds/': 'index 0 guarded by `end - start >= 1` (obligation 7b)',
    'frame::Frame::get_message_length/index/': 'range 0..4 guarded by `end - start >= 4` (obligation 7b)',
    'frame::Frame::get_message_length/copy_from_slice/': '4-byte array filled from a 4-byte range (obligation 7b)',
    'messages::handshake::Handshake::check/bounds/': 'indices < 1+19 guarded by available >= 68; PROTOCOL_ID[idx] with idx in 0..19 (obligation 7b)',
}
for _m in ('bitfield::Bitfield', 'cancel::Cancel', 'handshake::Handshake', 'have::Have', 'piece::Piece', 'request::Request'):
    ALLOW['messages::%s::from/index/' % _m] = 'constant ranges inside the size returned by the same message\'s check (obligation 7b)'
    if _m != 'bitfield::Bitfield':
        ALLOW['messages::%s::from/copy_from_slice/' % _m] = 'array size equals range size (obligation 7b)'


@TABLE.rule('7', 'K4', 'panic-site audit of everything reachable from the frame reader', floor=40)
def r7(cx, rec):
    F = cx.F
    R, rb = reader_fn(F)
    a = C.Audit(F, [F.owner_fn(R).path], ALLOW)
    fns, n = a.run(rec)
    rec.note('%d functions reachable from the reader, %d panic-capable sites' % (len(fns), n))


@TABLE.rule('7b', 'K4', 'structural facts behind the audit: from() ranges lie inside what check() guarantees; array and range '
            'sizes agree; getters index below their guard', floor=17)
def r7b(cx, rec):
    F = cx.F
    for name, ty in C07.messages(F):
        if name in ('KeepAlive', 'Choke', 'Unchoke', 'Interested', 'NotInterested'):
            continue
        frm = C07.impl_method(F, ty, 'from')
        chk = C07.impl_method(F, ty, 'check')
        # minimum size guaranteed by check
        mins = []
        for bi, si, oe in mirq.agg_sites(chk, r'^std::result::Result$', 'Ok'):
            c, var = C07.lin(oe[4][0][1])
            if var is None:
                mins.append(c)
            else:
                # variable: 4 + length with length >= MIN (Piece) or >= 1 (length 0 is KeepAlive, handled before the dispatch)
                lo = 1
                for sb in chk.switches():
                    e, ts, o = chk.cond(sb)
                    if e[0] == 'binop' and e[1] in ('Lt', 'Ge') and access_path(e[2]) == var and C07.fold(e[3]) is not None:
                        lo = max(lo, C07.fold(e[3]))
                mins.append((c or 0) + lo)
        guaranteed = min(mins) if mins else 0
        fills, frm = C07.reader_layout2(F, frm)
        for lk, (s, e_, to_cur, bb) in fills.items():
            key = fills.labels[lk]
            if to_cur:
                ok = s is not None and s <= guaranteed
                rec.site(frm, bb, '%s::from payload [%s..cursor], check guarantees >= %s' % (name, s, guaranteed))
                rec.need(ok, 'from-range/%s/payload' % name, frm, bb, '%s::from slices from %s but check only guarantees %s bytes' % (name, s, guaranteed))
            else:
                ok = s is not None and e_ is not None and s <= e_ <= guaranteed
                rec.site(frm, bb, '%s::from [%s..%s], check guarantees >= %s' % (name, s, e_, guaranteed))
                rec.need(ok, 'from-range/%s/%s' % (name, key), frm, bb, '%s::from reads bytes [%s..%s] but check only guarantees %s' % (name, s, e_, guaranteed))
                # destination array size
                for b2 in mirq.real_calls(frm):
                    if b2 == bb:
                        ce = frm.expr_call(bb)
                        dst = C07.strip_cast(ce[2][0])
                        init = mirq.init_of(dst)
                        if init[0] == 'agg' and init[1] == 'repeat':
                            n = C07.fold(init[4][1][1])
                            rec.need(n == e_ - s, 'from-array-size/%s/%s' % (name, key), frm, bb,
                                     '%s::from copies %d bytes into a %s-byte array (copy_from_slice panics)' % (name, e_ - s, n))
    # getters: constant index / range end below the guard constant
    P = parse_fn(F)
    for bb, tgt in C.local_calls(F, P):
        g = F.fn(tgt)
        if g.self_ty != P.self_ty and not (not g.self_ty and g.path.rsplit('::', 1)[0] == P.path.rsplit('::', 2)[0]):
            continue   # (a private free function of the decoder's module is a getter like an associated one)
        gn = None
        gsb = None
        tt = None
        gm = getter_minimum(g)
        if gm:
            gn, gsb, tt = gm
        extent = []
        for kind, pb, ops in mirq.panic_sites(g):
            if kind == 'bounds':
                idx = C07.fold(ops[1])
                extent.append(idx + 1 if idx is not None else None)
                ok = gn is not None and idx is not None and idx < gn and pb in g.only_via_edge((gsb, tt))
                rec.site(g, pb, 'index %s under guard >= %s' % (idx, gn))
                rec.need(ok, 'getter-index/' + tgt.split('::')[-1], g, pb, 'getter indexes byte %s without a dominating guard of at least %s bytes' % (idx, (idx or 0) + 1))
            if kind == 'index' and len(ops) > 1 and ops[1][0] == 'agg':
                rng = dict(ops[1][4])
                end = C07.fold(rng.get('end', ('const', None, None, '')))
                extent.append(end)
                ok = gn is not None and end is not None and end <= gn and pb in g.only_via_edge((gsb, tt))
                rec.site(g, pb, 'range ..%s under guard >= %s' % (end, gn))
                rec.need(ok, 'getter-range/' + tgt.split('::')[-1], g, pb, 'getter slices ..%s without a dominating guard' % end)
        if extent and gn is not None and None not in extent:
            # tight: a getter that demands more bytes than it reads makes a complete message wait for bytes of the next one
            rec.need(gn == max(extent), 'getter-threshold/' + tgt.split('::')[-1], g, gsb,
                     'getter requires %d buffered bytes but reads only the first %d: a complete message that ends there is not '
                     'delivered until further bytes arrive' % (gn, max(extent)))
    # Handshake::check: loop indices bounded by the guard
    hs = C07.impl_method(F, dict(C07.messages(F))['Handshake'], 'check')
    inc = [bi for bi, si, e in mirq.agg_sites(hs, r'^error::Error$', 'Incomplete')]
    g = False
    for n, sb, good in threshold_guards(hs):
        e = hs.cond(sb)[0]
        while e[0] == 'unop':
            e = e[2]
        if n >= 68 and any((access_path(x) or '') in avail_params(F, hs) for x in (e[2], e[3])):
            bounds = [pb for kind, pb, ops in mirq.panic_sites(hs) if kind == 'bounds']
            # comparisons made in a closure (`(0..n).any(|i| buf[i + 1] != ID[i])`): the call that receives the closure
            for c2 in F.children(hs.path):
                if any(kind == 'bounds' for kind, pb, ops in mirq.panic_sites(F.fns[c2])):
                    recv = [bb for bb in mirq.real_calls(hs) if any(x[0] == 'closure' and x[1] == c2 for x in walk(hs.expr_call(bb)))]
                    bounds += recv or [0]
            g = all(pb in hs.only_via_edge((sb, good)) or pb == good for pb in bounds) and bool(bounds)
            rec.site(hs, sb, 'handshake byte comparisons only after available >= 68: %s' % g)
    rec.need(g, 'handshake-compare-unguarded', hs, None, 'Handshake::check indexes the buffer without first requiring 68 available bytes')
