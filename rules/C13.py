"""C13 -- piece choice is rarest-first among what the peer can give (guards, threshold, orientation).

Decides: (1) Some(i) is returned only under count(i) > 0 and peer.pieces[i], where pieces is the
vector of the peer named by the address parameter; (2) the candidate filter is `status != Have`
below the end-game threshold and `status == Missing` otherwise, the threshold is END_GAME_LIMIT
(10) compared with `<`, and the number compared counts `status != Have`; (3) candidates are
ordered ascending in the availability count, scanned in that order taking the first hit,
availability counts every connected peer's pieces, the shuffle precedes the (stable) sort;
(4) None is returned only after the scan is exhausted."""
import re
import mirq
from mirq import show, access_path, AnchorMissing, const_of, walk
from rulekit import Table
from rules import common as C

TABLE = Table('C13')
NOT_DECIDED = ('that the pick is a global minimum for all states and tie-breaks (value-level relation); randomness quality.')


def chooser(F):
    fs = []
    for f in F.user_fns():
        if f.locals[0]['ty'] == 'std::option::Option<usize>' and any(f.expr_call(bb)[4].get('name') in ('sort_by', 'sort_by_key', 'sort_unstable_by', 'sort_unstable_by_key', 'min_by_key', 'min_by') for bb in mirq.real_calls(f)):
            fs.append(f)
    return C.one(fs, 'piece chooser (returns Option<usize>, orders candidates)')


def status_field(F):
    """'self.<field>' of the manager's status vector (the Vec<Status> field)"""
    adt, name = C.field_by_type(F, r'^std::vec::Vec<session::Status>$', 'status vector')
    return name


def captures(F, clo):
    """{upvar name: expression captured} for a closure node of the enclosing body"""
    cf = F.fn(clo[1])
    out = {}
    for v in cf.raw['vars']:
        p = v.get('place') or {}
        if p.get('l') == 1:
            idx = [x['i'] for x in p.get('p', []) if x.get('k') == 'field']
            if idx and idx[0] < len(clo[2]):
                out[v['n']] = clo[2][idx[0]]
    return out


def find_map_form(F, Ch):
    """(find_call, predicate closure node, index projection ok) when the chooser returns
    `<sorted>.iter().find(pred).map(|(i, _)| *i)` (or find_map): the first element, front to back, that satisfies pred"""
    e = mirq.init_of(Ch.expr_local(0))
    if e[0] == 'call' and e[4].get('name') == 'map' and e[2] and e[2][0][0] == 'call' and e[2][0][4].get('name') == 'find':
        find = e[2][0]
        pred = [a for a in find[2][1:] if a[0] == 'closure']
        mp = [a for a in e[2][1:] if a[0] == 'closure']
        if pred and mp:
            r = mirq.closure_result(F.fn(mp[0][1]))
            proj_ok = r[0] == 'field' and r[2] == '0' and r[1][0] == 'var'
            return find, pred[0], proj_ok
    return None


def closure_ret(F, path):
    cf = F.fn(path)
    for b2, b in enumerate(cf.blocks):
        t = b['t']
        if t['k'] == 'call' and t['dest']['l'] == 0 and not b.get('cleanup'):
            return cf, cf.expr_call(b2)
    for bi, si, s in cf.assigns():
        if s['lhs']['l'] == 0:
            return cf, cf.expr_rvalue(s['rv'])
    return cf, None


@TABLE.rule('1', 'K1', 'Some(i) only under count(i) > 0 and pieces[i] of the peer named by the address parameter', floor=2)
def r1(cx, rec):
    F = cx.F
    Ch = chooser(F)
    somes = [(bi, e) for bi, si, e in mirq.agg_sites(Ch, r'^std::option::Option$', 'Some') if any(s2['lhs']['l'] == 0 for s2 in Ch.blocks[bi]['s'] if s2['k'] == 'assign')]
    fm = find_map_form(F, Ch) if not somes else None
    if fm:
        # iterator form: Some(i) is the index of the first element for which the predicate holds; the predicate must imply both guards
        from rules.C14 import closure_truth
        find, pred, proj_ok = fm
        cf = F.fn(pred[1])
        caps = captures(F, pred)
        from rules import vocab as V
        addr_params = [n for n, l, t in C.params_of(F.owner_fn(Ch), r'String|str')]
        bitmap = [n for n, ex in caps.items()
                  if len(addr_params) == 1 and show(mirq.init_of(ex)).replace('std::ops::Index::', '') == 'index(self.%s, %s).%s' % (V.peers_map(F), addr_params[0], V.peer_bitmap(F))]
        rows = closure_truth(F, cf)
        trues = [a for a, r in rows if r is True]
        need = {'count>0': bool(trues), 'peer-has': bool(trues) and bool(bitmap)}
        for a in trues:
            need['count>0'] = need['count>0'] and any(k.startswith('std::cmp::PartialOrd::gt(') and k.endswith('.1, 0)') and v is True for k, v in a.items())
            need['peer-has'] = need['peer-has'] and any(('index(%s, ' % bitmap[0]) in k.replace('std::ops::Index::', '') and k.rstrip(')').endswith('.0') and v is True
                                                         for k, v in a.items()) if bitmap else False
        rec.site(cf, None, 'find predicate true only if %s' % [sorted(a) for a in trues][:2])
        rec.need(proj_ok, 'some-not-index', Ch, None, 'the value mapped out of the found element is not its piece index')
        for k, v in need.items():
            rec.site(cf, None, 'Some only if %s: %s' % (k, v))
            rec.need(v, 'some-unguarded/' + k, Ch, find[3], 'a piece can be chosen without the guard %s' % k)
        return
    rec.need(bool(somes), 'never-some', Ch, None, 'chooser never returns a piece')
    for bi, e in somes:
        idx = show(e[4][0][1])
        need = {'count>0': False, 'peer-has': False}
        for sb in Ch.switches():
            ce, ts, o = Ch.cond(sb)
            be = Ch.bool_edges(sb)
            if not be:
                continue
            tt, ff = be
            if bi not in Ch.only_via_edge((sb, tt)):
                continue
            s = show(ce)
            if ce[0] == 'call' and ce[4].get('name') == 'gt' and const_of(ce[2][1]) and const_of(ce[2][1])[0] == 0 and show(ce[2][0]).endswith('.0.1') and idx.endswith('.0.0') and show(ce[2][0])[:-1] == idx[:-1]:
                need['count>0'] = True
                rec.site(Ch, sb, 'Some only if count > 0')
            if ce[0] == 'binop' and ce[1] == 'Gt' and const_of(ce[3]) and const_of(ce[3])[0] == 0 and show(ce[2]).endswith('.0.1'):
                need['count>0'] = True
                rec.site(Ch, sb, 'Some only if count > 0')
            x = ce
            if x[0] == 'binop' and x[1] == 'Eq' and const_of(x[3]) and const_of(x[3])[0] == 1:
                x = x[2]
            if x[0] == 'call' and x[4].get('name') == 'index' and show(x[2][1]) == idx:
                base = x[2][0]
                p = show(mirq.init_of(base))
                from rules import vocab as V
                addr_params = [n for n, l, t in C.params_of(F.owner_fn(Ch), r'String|str')]
                want = ['index(self.%s, %s).%s' % (V.peers_map(F), a, V.peer_bitmap(F)) for a in addr_params]
                if len(addr_params) == 1 and p.replace('std::ops::Index::', '') == want[0]:
                    need['peer-has'] = True
                    rec.site(Ch, sb, 'Some only if peers[addr].pieces[i]')
        for k, v in need.items():
            rec.need(v, 'some-unguarded/' + k, Ch, bi, 'a piece can be chosen without the guard %s' % k)


@TABLE.rule('2', 'K7+K11', 'candidate filter: != Have below END_GAME_LIMIT (10, compared with <), == Missing otherwise; the compared number counts != Have', floor=4)
def r2(cx, rec):
    F = cx.F
    Ch = chooser(F)
    lim = [c for c in F.consts_named('END_GAME_LIMIT')]
    rec.need(len(lim) == 1 and lim[0].get('val') == 10, 'end-game-limit', 'session::END_GAME_LIMIT', None, 'END_GAME_LIMIT is %s, the property says ten' % [c.get('val') for c in lim])
    sel = None
    for sb in Ch.switches():
        ce, ts, o = Ch.cond(sb)
        if ce[0] == 'binop' and ce[1] in ('Lt', 'Le', 'Gt', 'Ge') and const_of(ce[3]) and (const_of(ce[3])[1] or '').endswith('END_GAME_LIMIT'):
            boxes = [bb for bb in mirq.real_calls(Ch) if Ch.expr_call(bb)[1].endswith('Box::<T>::new')]
            tt, ff = Ch.bool_edges(sb)
            tb = [bb for bb in boxes if bb in Ch.only_via_edge((sb, tt))]
            fb = [bb for bb in boxes if bb in Ch.only_via_edge((sb, ff))]
            if tb and fb:
                sel = (sb, ce, tb[0], fb[0])
    if not sel:
        raise AnchorMissing('no END_GAME_LIMIT comparison selects the candidate filter')
    sb, ce, tbox, fbox = sel
    rec.site(Ch, sb, 'threshold test %s' % show(ce)[-60:])
    rec.need(ce[1] == 'Lt', 'end-game-operator', Ch, sb, 'end-game test is `%s END_GAME_LIMIT` (property: fewer than ten remain)' % ce[1])
    # the compared number
    cnt = mirq.init_of(ce[2])
    okc = cnt[0] == 'call' and cnt[4].get('name') == 'count'
    pred = None
    if okc:
        clo = [x for x in walk(cnt) if x[0] == 'closure']
        if clo:
            cf, r = closure_ret(F, clo[0][1])
            pred = r
    okpred = pred is not None and pred[0] == 'call' and pred[4].get('name') == 'ne' and pred[2][1][0] == 'agg' and pred[2][1][3] == 'Have' and status_field(F) in show(pred[2][0])
    if okc and okpred and clo:
        # nothing but `status != Have` decides what is counted (no further conjunct / disjunct)
        from rules.C14 import closure_truth
        rows = closure_truth(F, F.fn(clo[0][1]))
        extra = sorted({k for a, r in rows for k in a if 'session::Status::Have' not in k})
        okpred = not extra and any(r for a, r in rows) and any(not r for a, r in rows)
        if extra:
            rec.site(Ch, sb, 'still-missing predicate also depends on %s' % [k[-60:] for k in extra])
    lid = ce[2][-1] if ce[2][0] in ('var', 'mvar') and isinstance(ce[2][-1], int) else None
    if not okc and lid is not None:
        # explicit loop: a counter initialised to 0 and incremented only behind `status[i] != Have` for a loop index i
        incs = []
        inits = []
        for bi, si, s in Ch.assigns():
            if not s['lhs'].get('p') and s['lhs']['l'] == lid:
                v = Ch.expr_rvalue(s['rv'])
                while v[0] == 'field' and v[2] == '0':
                    v = v[1]
                if const_of(v) and v[0] == 'const' and const_of(v)[0] == 0:
                    inits.append(bi)
                elif v[0] == 'binop' and v[1].startswith('Add') and v[2][0] in ('var', 'mvar') and v[2][-1] == lid and const_of(v[3]) and const_of(v[3])[0] == 1:
                    incs.append(bi)
                else:
                    incs.append(None)
        guarded = bool(incs) and None not in incs
        for ib in [b for b in incs if b is not None]:
            g = False
            for s2 in Ch.switches():
                c2 = Ch.cond(s2)[0]
                be = Ch.bool_edges(s2)
                if be and c2[0] == 'call' and c2[4].get('name') in ('ne', 'eq') and c2[2][1][0] == 'agg' and c2[2][1][3] == 'Have' and \
                        status_field(F) in show(c2[2][0]) and 'Iterator::next(' in show(c2[2][0]):
                    edge = be[0] if c2[4]['name'] == 'ne' else be[1]
                    if ib in Ch.only_via_edge((s2, edge)) or ib == edge:
                        g = True
                        pred = c2
            guarded = guarded and g
        okpred = guarded and len(inits) == 1
    rec.site(Ch, sb, 'still-missing counts %s' % (show(pred)[-70:] if pred else None))
    rec.need(okpred, 'still-missing-predicate', Ch, sb, 'the number compared with the threshold does not count `status != Have`')
    for lab, bb, want in (('end-game', tbox, ('ne', 'Have')), ('normal', fbox, ('eq', 'Missing'))):
        clo = [x for x in walk(Ch.expr_call(bb)) if x[0] == 'closure']
        cf, r = closure_ret(F, clo[0][1])
        okp = r is not None and r[0] == 'call' and r[4].get('name') == want[0] and r[2][1][0] == 'agg' and r[2][1][3] == want[1] and status_field(F) in show(r[2][0]) and \
            r[2][0][0] == 'call' and r[2][0][4].get('name') == 'index' and C.param_pos(cf, r[2][0][2][1]) is not None
        rec.site(cf, None, '%s filter: %s' % (lab, show(r)[-70:] if r else None))
        rec.need(okp, 'filter/' + lab, cf, None, '%s candidate filter is %s (expected status %s %s)' % (lab, show(r)[-80:] if r else None, '!=' if want[0] == 'ne' else '==', want[1]))
    # the filter is applied to build the candidate vector
    flt = [bb for bb in mirq.real_calls(Ch) if Ch.expr_call(bb)[4].get('name') == 'filter' and bb in Ch.reach_from(sb)]
    # the local that holds the selected predicate (captured under the same name by the filter closure)
    box_names = set()
    for l, nm in Ch._localnames.items():
        if l > Ch.argc and any(x[0] == 'call' and x[3] in (tbox, fbox) for x in walk(Ch.expr_local(l), inl=False)):
            box_names.add(nm)
    okf = False
    for bb in flt:
        clo = [x for x in walk(Ch.expr_call(bb)) if x[0] == 'closure']
        for c in clo:
            cf, r = closure_ret(F, c[1])
            if r is not None and r[0] == 'call' and r[1] == 'std::ops::Fn::call' and access_path(r[2][0]) in box_names and show(r[2][1]).endswith('arg2.0}'):
                okf = True
    if not okf:
        # explicit loop: every push into the candidate vector lies behind `selected_predicate(i)` for the pushed index i
        sorts = [bb for bb in mirq.real_calls(Ch) if (Ch.expr_call(bb)[4].get('name') or '').startswith('sort')]
        vec = mirq.root_var(Ch.expr_call(sorts[0])[2][0]) if sorts else None
        pushes = [bb for bb in mirq.real_calls(Ch) if Ch.expr_call(bb)[4].get('name') == 'push' and vec and mirq.root_var(Ch.expr_call(bb)[2][0]) == vec]
        okl = bool(pushes)
        for pb in pushes:
            item = Ch.expr_call(pb)[2][1]
            idx = show(item[4][0][1]) if item[0] == 'agg' and item[1] == 'tuple' and item[4] else None
            g = False
            for s2 in Ch.switches():
                c2 = Ch.cond(s2)[0]
                be = Ch.bool_edges(s2)
                if be and c2[0] == 'call' and c2[1] == 'std::ops::Fn::call' and any(x[0] == 'call' and x[3] in (tbox, fbox) for x in walk(c2[2][0], inl=False)):
                    a = c2[2][1]
                    a0 = show(a[4][0][1]) if a[0] == 'agg' and a[4] else show(a)
                    if a0 == idx and (pb in Ch.only_via_edge((s2, be[0])) or pb == be[0]):
                        g = True
            okl = okl and g
        okf = okl
    rec.need(okf, 'filter-not-applied', Ch, None, 'the selected filter is not applied to the piece index of each candidate')


@TABLE.rule('3', 'orientation', 'ascending availability order, first hit taken; availability counts every connected peer; shuffle before the stable sort', floor=3)
def r3(cx, rec):
    F = cx.F
    Ch = chooser(F)
    sorts = [bb for bb in mirq.real_calls(Ch) if (Ch.expr_call(bb)[4].get('name') or '').startswith('sort')]
    rec.need(len(sorts) == 1, 'sort-count', Ch, None, 'candidates are sorted %d times' % len(sorts))
    for sbb in sorts:
        e = Ch.expr_call(sbb)
        nm = e[4].get('name')
        asc = None
        clo = [x for x in e[2][1:] if x[0] == 'closure']
        if nm in ('sort_by', 'sort_unstable_by') and clo:
            asc = C.cmp_orientation(F, clo[0][1], '1')
            rec.site(F.fn(clo[0][1]), None, 'comparator ascending in the availability count: %s' % asc)
        elif nm in ('sort_by_key', 'sort_unstable_by_key') and clo:
            cf, r = closure_ret(F, clo[0][1])
            if r is not None:
                asc = show(r).endswith('.1') and 'Reverse' not in show(r)
                rec.site(cf, None, 'key %s: ascending=%s' % (show(r)[-30:], asc))
        if asc is None:
            rec.violation('ordering-idiom-not-recognised', Ch, sbb, 'ordering idiom not recognised: %s' % show(e)[:100])
        else:
            rec.need(asc, 'ordering-descending', Ch, sbb, 'candidates are ordered by descending availability (most common first)')
        rec.need(not nm.startswith('sort_unstable') or True, 'sort-unstable', Ch, sbb, '')
        sh = [bb for bb in mirq.real_calls(Ch) if Ch.expr_call(bb)[4].get('name') == 'shuffle']
        for s in sh:
            rec.site(Ch, s, 'shuffle before sort: %s' % (sbb in Ch.reach_from(s) and s not in Ch.reach_from(sbb)))
            rec.need(sbb in Ch.reach_from(s) and s not in Ch.reach_from(sbb), 'shuffle-after-sort', Ch, s, 'the shuffle runs after the sort and destroys the rarest-first order')
            rec.need(not nm.startswith('sort_unstable') , 'unstable-sort-after-shuffle', Ch, sbb, 'unstable sort: tie-break no longer uniform (not a violation of order)') if False else None
        # scan: iterates the sorted vector front to back
        sorted_vec = mirq.root_var(e[2][0])
        scan = [bb for bb in mirq.real_calls(Ch) if Ch.expr_call(bb)[4].get('name') in ('iter', 'rev', 'into_iter') and sorted_vec
                and mirq.root_var(Ch.expr_call(bb)[2][0]) == sorted_vec and bb in Ch.reach_from(sbb)]
        rev = [bb for bb in scan if Ch.expr_call(bb)[4].get('name') == 'rev']
        rec.need(bool(scan) and not rev, 'scan-order', Ch, sbb, 'the sorted candidates are not scanned front to back')
        # the scan always runs over sorted candidates: no path reaches it around the sort
        ok_dom, bad = C.must_pass(Ch, [sbb], scan)
        rec.need(ok_dom, 'scan-without-sort', Ch, sbb, 'the candidates can be scanned without having been sorted by availability '
                 '(the sort is conditional): on that path the choice is not rarest-first')
    # availability counts all peers
    inc = None
    for bi, si, s in Ch.stores():
        e = Ch.expr_rvalue(s['rv'])
        while e[0] == 'field' and e[2] == '0':
            e = e[1]
        if e[0] == 'binop' and e[1].startswith('Add') and const_of(e[3]) and const_of(e[3])[0] == 1:
            inc = (bi, Ch.expr_place(s['lhs']))
    rec.need(inc is not None, 'availability-count', Ch, None, 'availability is not counted')
    if inc:
        bi, lhs = inc
        d = mirq.deps(Ch, lhs)
        outer = [bb for bb in mirq.real_calls(Ch) if Ch.expr_call(bb)[4].get('name') == 'iter' and access_path(Ch.expr_call(bb)[2][0]) == 'self.peers']
        rec.site(Ch, bi, 'availability[i] += 1 inside a loop over self.peers: %s' % bool(outer))
        rec.need(bool(outer) and any(bi in Ch.reach_from(o) for o in outer), 'availability-scope', Ch, bi, 'availability is not counted over all connected peers')
        # guarded by the peer having the piece
        g = False
        for sb in Ch.switches():
            ce, ts, o = Ch.cond(sb)
            if Ch.bool_edges(sb) and show(ce).endswith('.0.1') and bi in Ch.only_via_edge((sb, Ch.bool_edges(sb)[0])):
                g = True
        rec.need(g, 'availability-guard', Ch, bi, 'availability is incremented regardless of whether the peer has the piece')


@TABLE.rule('4', 'K1', 'None only after the scan is exhausted', floor=1)
def r4(cx, rec):
    F = cx.F
    Ch = chooser(F)
    nones = [bi for bi, si, e in mirq.agg_sites(Ch, r'^std::option::Option$', 'None') if any(s2['k'] == 'assign' and s2['lhs']['l'] == 0 for s2 in Ch.blocks[bi]['s'])]
    fm = find_map_form(F, Ch) if not nones else None
    if fm:
        # Iterator::find yields None exactly when every element was examined and none satisfied the predicate
        srt = [bb for bb in mirq.real_calls(Ch) if (Ch.expr_call(bb)[4].get('name') or '').startswith('sort')]
        vec_ok = bool(srt) and mirq.root_var(fm[0][2][0]) == mirq.root_var(Ch.expr_call(srt[0])[2][0])
        rec.site(Ch, fm[0][3], 'None = Iterator::find over the sorted candidates found nothing: %s' % vec_ok)
        rec.need(vec_ok, 'none-before-exhaustion', Ch, fm[0][3], 'the search does not run over the sorted candidate vector')
        return
    rec.need(bool(nones), 'never-none', Ch, None, 'chooser never returns None')
    sorts = [bb for bb in mirq.real_calls(Ch) if (Ch.expr_call(bb)[4].get('name') or '').startswith('sort')]
    for nb in nones:
        ok = False
        for bb in mirq.real_calls(Ch):
            if (Ch.blocks[bb]['t'].get('callee') or '') == 'std::iter::Iterator::next' and sorts and bb in Ch.reach_from(sorts[0]):
                for s, t in Ch.outcome_edges(bb).get('none', []):
                    if nb in Ch.only_via_edge((s, t)) or nb == t:
                        ok = True
        rec.site(Ch, nb, 'None only on the exhausted edge of the scan: %s' % ok)
        rec.need(ok, 'none-before-exhaustion', Ch, nb, 'None can be returned before every candidate was examined')


@TABLE.rule('5', 'K1', 'the advertised set is maintained: handling Have(i) always records pieces[i] = true for that peer', floor=1)
def r5(cx, rec):
    F = cx.F
    from rules import vocab as V
    bm = V.peer_bitmap(F)
    hs = [g for g in V._arm_handlers(F, 'RecvHave') if g.self_ty == 'peer::Peer']
    H = C.one(hs, 'Peer method handling RecvHave')
    sets = []
    for bi, si, s in H.stores():
        le = H.expr_place(s['lhs'])
        c = const_of(H.expr_rvalue(s['rv']))
        if le[0] == 'call' and le[4].get('name') in ('index_mut', 'index') and access_path(le[2][0]) == 'self.' + bm and c and c[0] == 1:
            sets.append((bi, le))
    rec.need(bool(sets), 'have-not-recorded', H, None, 'a Have announcement is never recorded in the peer\'s advertised set')
    for bi, le in sets:
        rec.site(H, bi, 'records %s = true' % show(le)[:60])
        rec.need(C.is_param(H, le[2][1]), 'have-recorded-wrong-index', H, bi, 'the recorded index %s is not the announced one' % show(le[2][1])[:40])
    ok, bad = C.must_pass(H, [bi for bi, le in sets], H.return_blocks())
    rec.need(ok, 'have-not-always-recorded', H, None,
             'a Have announcement can be handled without recording it in the advertised set: the availability counts and the set of '
             'pieces this peer can give go stale, and a piece it has is never asked from it')


@TABLE.rule('6', 'K1', 'the choice is made on up-to-date statuses: a handler that changes a status itself does so before it chooses (shared with C12)', floor=2)
def r6(cx, rec):
    from rules import C12
    C12.r6b(cx, rec)


@TABLE.rule('7', 'K1', 'a piece the client has stays had: Missing / Reserved is never stored over Have, so a later choice cannot pick it '
            '(shared with C12)', floor=6)
def r7(cx, rec):
    from rules import C12
    C12.r5(cx, rec)
