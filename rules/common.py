"""anchors and sub-rules shared by several property tables.

Anchors are located semantically (by what a function *does*: the error variant it builds,
the enum it dispatches on, the library call it makes) rather than by name, so renaming or
moving a function does not disturb a rule, while deleting the construct makes the rule fail
closed (AnchorMissing)."""
import re
import mirq
from mirq import AnchorMissing, show, access_path, walk, const_of


def named_or_owner(F, f):
    return F.owner_fn(f)


def fns_constructing(F, adt_rx, variant):
    """bodies that build `adt::variant` (closures reported as themselves)"""
    out = []
    for f in F.user_fns():
        if mirq.agg_sites(f, adt_rx, variant):
            out.append(f)
    return out


def fns_switching_on(F, ty_rx, min_arms=2):
    """[(Fn, switch_bb)] for switches on discr(x) with x of a type matching ty_rx"""
    rx = re.compile(ty_rx)
    out = []
    for f in F.user_fns():
        for sb in f.switches():
            e, ts, o = f.cond(sb)
            if e[0] == 'discr' and rx.search(e[2]) and len(ts) + (0 if f.is_unreachable_block(o) else 1) >= min_arms:
                out.append((f, sb))
    return out


def one(lst, what):
    if len(lst) == 0:
        raise AnchorMissing('no ' + what)
    if len(lst) > 1:
        names = ', '.join(sorted(getattr(x, 'path', str(x)) if not isinstance(x, tuple) else x[0].path for x in lst))
        raise AnchorMissing('ambiguous %s: %s' % (what, names))
    return lst[0]


def ok_exit_blocks(f):
    """blocks that assign the return place an `Ok(..)` (or, for bool/unit fns, any value that is
    not an Err / from_residual)"""
    out = []
    for bi, b in enumerate(f.blocks):
        if b.get('cleanup'):
            continue
        for s in b['s']:
            if s['k'] == 'assign' and s['lhs']['l'] == 0 and not s['lhs'].get('p'):
                rv = s['rv']
                if rv['k'] == 'agg' and rv.get('ak') == 'adt' and rv['adt'] == 'std::result::Result':
                    if rv['v'] == 'Ok':
                        out.append(bi)
                else:
                    out.append(bi)
        t = b['t']
        if t['k'] == 'call' and t['dest']['l'] == 0 and not t['dest'].get('p'):
            if (t.get('callee') or '') != 'std::ops::FromResidual::from_residual':
                out.append(bi)
    return out


def err_exit_blocks(f):
    out = []
    for bi, b in enumerate(f.blocks):
        if b.get('cleanup'):
            continue
        for s in b['s']:
            if s['k'] == 'assign' and s['lhs']['l'] == 0 and not s['lhs'].get('p'):
                rv = s['rv']
                if rv['k'] == 'agg' and rv.get('ak') == 'adt' and rv['adt'] == 'std::result::Result' and rv['v'] == 'Err':
                    out.append(bi)
        t = b['t']
        if t['k'] == 'call' and t['dest']['l'] == 0 and (t.get('callee') or '') == 'std::ops::FromResidual::from_residual':
            out.append(bi)
    return out


def local_calls(F, f, name_rx=None):
    """real call sites in f whose callee is a crate-local fn (optionally name-filtered)"""
    lc = f.__dict__.get('_local_calls')
    if lc is None:
        lc = []
        for bb in mirq.real_calls(f):
            t = f.blocks[bb]['t']
            tgt = t.get('resolved') if t.get('resolved') in F.fns else t.get('callee')
            if tgt in F.fns:
                lc.append((bb, tgt))
        f.__dict__['_local_calls'] = lc
    return [(bb, tgt) for bb, tgt in lc if name_rx is None or re.search(name_rx, tgt)]


def calls_to_fn(F, f, target_path):
    return [bb for bb, tgt in local_calls(F, f) if tgt == target_path]


def callers(F, target_path):
    idx = F.__dict__.get('_callers_index')
    if idx is None:
        idx = {}
        for f in F.user_fns():
            for bb, tgt in local_calls(F, f):
                idx.setdefault(tgt, []).append((f, bb))
        F.__dict__['_callers_index'] = idx
    return list(idx.get(target_path, []))


def flag_sites(F, fpath, pname, depth=0):
    """[(caller fn, call bb, argument)] of the values parameter `pname` of function fpath receives; a caller that merely
    passes its own parameter on (`fn mk(&self, done: bool, ..)` called as `self.mk(done, ..)`) is looked through"""
    g = F.fn(fpath)
    params = [v['n'] for v in g.raw['vars'] if 'arg' in v]
    if pname not in params:
        return []
    pi = params.index(pname)
    out = []
    for f, bb in callers(F, fpath):
        args = f.expr_call(bb)[2]
        arg = args[pi] if pi < len(args) else None
        if arg is not None and mirq.const_of(arg) is None and depth < 2 and arg[0] == 'var' and is_param(f, arg):
            out += flag_sites(F, F.owner_fn(f).path, arg[1], depth + 1)
        else:
            out.append((f, bb, arg))
    return out


def ctor_sites(F, target_path):
    """[(fn, call bb, argument expressions)] of the places a constructor is used: its direct call sites, and - for a call made
    inside a small forwarding helper (`fn mk(&self, a, b) -> T { T::new(a, self.x, b, ..) }`) - the helper's call sites with the
    helper's parameters substituted (the helper's own body is then not a site of its own)"""
    out = []
    fwd = set()
    for g in F.user_fns():
        for bb, tgt in local_calls(F, g):
            if tgt == target_path:
                continue
            inl = g.expr_call(bb)[4].get('inl')
            if inl is not None and inl[0] == 'call' and inl[1] == target_path:
                out.append((g, bb, inl[2]))
                fwd.add(tgt)
    for g, bb in callers(F, target_path):
        if g.path not in fwd:
            out.append((g, bb, g.expr_call(bb)[2]))
    return out


def must_pass(f, via_blocks, targets, start=0):
    """True iff every feasible path from `start` to any block of `targets` passes through one of
    via_blocks.  Returns (ok, offending_targets)"""
    r = f.explore(start=start, cut_blocks=set(via_blocks))
    bad = [t for t in targets if t in r]
    return (not bad), bad


def error_propagates(f, call_bb):
    """the Err outcome of the call at call_bb leads to an Err exit of f (by `?` or by an explicit
    match arm that returns Err) and never back into normal flow.  Returns (ok, reason)"""
    oe = f.outcome_edges(call_bb)
    if 'err' not in oe:
        return False, 'the result of the call is never tested for Err'
    errs = set(err_exit_blocks(f))
    oks = set(ok_exit_blocks(f))
    for sb, tgt in oe['err']:
        r = f.reach_from(tgt)
        if not (r & errs):
            return False, 'Err edge does not reach an Err return'
        if r & oks:
            return False, 'Err edge can reach an Ok return'
    return True, ''


# ---- specific anchors -------------------------------------------------------------------------

def frame_dispatch(F):
    """the peer task's frame dispatcher: the body that switches on all Frame variants and
    calls crate-local async handlers (distinguished from Connection::send_frame, which only
    serialises)"""
    cands = []
    for f, sb in fns_switching_on(F, r'^&?(mut )?frame::Frame$', min_arms=8):
        calls = [tgt for _, tgt in local_calls(F, f)]
        if any('send_msg' in c for c in calls):
            continue
        cands.append((f, sb))
    # the dispatcher may switch on Frame more than once (keep-alive reset + dispatch)
    fns = {}
    for f, sb in cands:
        fns.setdefault(f.path, (f, []))[1].append(sb)
    if len(fns) != 1:
        raise AnchorMissing('frame dispatcher: %d candidates %s' % (len(fns), sorted(fns)))
    return list(fns.values())[0]


def peer_cmd_dispatch(F):
    cands = {}
    for f, sb in fns_switching_on(F, r'^commands::PeerCmd$', min_arms=8):
        cands.setdefault(f.path, (f, []))[1].append(sb)
    if len(cands) != 1:
        raise AnchorMissing('PeerCmd dispatcher: %d candidates' % len(cands))
    return list(cands.values())[0]


def arm_region(f, sb, variant):
    ve = f.variant_edges(sb)
    if ve is None or variant not in ve:
        raise AnchorMissing('no arm %s in switch of %s' % (variant, f.path))
    return ve[variant], f.only_via_edge((sb, ve[variant]))


class Scope:
    """a piece of code that handles one command/arm: the arm's region in the dispatcher, or the body of a helper that is
    called only from that arm (`via` = the call block in the dispatcher; `outer(e)` rewrites an expression of the helper
    in the dispatcher's terms by substituting the call's arguments for the parameters)"""

    def __init__(self, fn, start, region, via=None, names=None, args=None):
        self.fn, self.start, self.region, self.via = fn, start, region, via
        self.names, self.args = names or {}, args or ()

    def outer(self, e):
        return mirq._subst(e, self.names, self.args) if self.names else e


def arm_scopes(F, f, sb, variant):
    """[Scope]: the arm of `variant` in the switch sb of f, plus the bodies of crate-local helpers (sync or async) called
    in that arm and from nowhere else -- moving an arm's code into its own function keeps it in scope"""
    tgt, region = arm_region(f, sb, variant)
    region = set(region) | {tgt}
    scopes = [Scope(f, tgt, region)]
    for bb, callee in local_calls(F, f):
        if bb not in region:
            continue
        g = F.fns.get(callee)
        if g is None:
            continue
        cs = callers(F, callee)
        if not cs or not all(F.owner_fn(c).path == F.owner_fn(f).path and c.path == f.path and cb in region for c, cb in cs):
            continue
        body = F.body(callee)
        if body is None:
            continue
        names = {n: i for i, (n, l, t) in enumerate(params_of(g))}
        scopes.append(Scope(body, 0, set(i for i, b in enumerate(body.blocks) if not b.get('cleanup')), via=bb, names=names,
                            args=f.expr_call(bb)[2]))
    return scopes


def peer_task_run(F):
    """(run_body, event_loop_call_bb, kill_req_fn): the peer task wrapper that turns the result of
    the event loop into a KillReq"""
    kr = [f for f in fns_constructing(F, r'^commands::PeerCmd$', 'KillReq')]
    if not kr:
        raise AnchorMissing('no constructor of PeerCmd::KillReq')
    kill_req_paths = {F.owner_fn(f).path for f in kr}
    return kill_req_paths


def kill_chain(F, rec, key_prefix):
    """shared obligation: an error of the peer task's event loop always produces KillReq and the
    manager's KillReq arm removes the peer and releases its reservation.
    Records violations on `rec`; returns nothing."""
    kill_req_paths = peer_task_run(F)
    # (a) the function that awaits the event loop sends KillReq on every path
    disp, sbs = frame_dispatch(F)
    disp_owner = F.owner_fn(disp).path
    loops = [F.owner_fn(f).path for f, _ in callers(F, disp_owner)]
    if not loops:
        raise AnchorMissing('nobody calls the frame dispatcher')
    loop_path = loops[0]
    runs = callers(F, loop_path)
    if not runs:
        raise AnchorMissing('nobody calls the peer event loop')
    for rf, bb in runs:
        kcalls = [b for b, tgt in local_calls(F, rf) if tgt in kill_req_paths]
        rec.site(rf, bb, 'awaits the peer event loop; KillReq senders on %d path(s)' % len(kcalls))
        ok, bad = must_pass(rf, kcalls, rf.return_blocks(), start=bb)
        rec.need(ok and kcalls, key_prefix + 'run-without-killreq/' + F.owner_fn(rf).path, rf, bb,
                 'a path from the end of the peer event loop to the end of the task does not send '
                 'PeerCmd::KillReq: the manager never learns that this peer is gone')
    # (a2) KillReq is delivered with an awaited send: a full queue delays the dying task, it does not lose the request
    for kp in kill_req_paths:
        for g in [F.body(kp)] + [F.fns[c] for c in F.children(kp)]:
            if g is None:
                continue
            for b2 in mirq.real_calls(g):
                t = g.blocks[b2]['t']
                cal = t.get('callee') or ''
                if 'commands::PeerCmd' in ''.join(t.get('gargs') or []) and re.search(r'mpsc::(bounded::)?Sender::<T>::(try_send|send_timeout|blocking_send)$', cal):
                    rec.violation(key_prefix + 'killreq-may-be-dropped/' + kp, g, b2,
                                  'KillReq is sent with %s: when the manager\'s queue is full the request is lost, the peer is never removed '
                                  'and its reservation never released' % cal.split('::')[-1])
    # (b) manager: KillReq arm -> handler that calls the peer remover
    pf, psbs = peer_cmd_dispatch(F)
    tgt, region = arm_region(pf, psbs[0], 'KillReq')
    arm_calls = [(b, t) for b, t in local_calls(F, pf) if b in region or b == tgt]
    rec.need(bool(arm_calls), key_prefix + 'killreq-arm-empty', pf, tgt,
             'the manager\'s KillReq arm calls no handler')
    removers = peer_removers(F)
    for b, t in arm_calls:
        hf = F.body(t)
        rec.site(hf, None, 'KillReq handler')
        kcalls = [bb for bb, tg in local_calls(F, hf) if tg in removers]
        ok, bad = must_pass(hf, kcalls, hf.return_blocks())
        rec.need(ok and kcalls, key_prefix + 'killreq-handler-skips-removal/' + t, hf, None,
                 'a path through the KillReq handler does not call the function that releases '
                 'the reservation and removes the peer')
    # (c) the remover resets a non-Have piece and removes the map entry
    for rp in removers:
        rf = F.body(rp)
        rm = [bb for bb in mirq.real_calls(rf)
              if re.search(r'HashMap::<[^>]*>::remove$', rf.blocks[bb]['t'].get('callee') or '')]
        ok, bad = must_pass(rf, rm, rf.return_blocks())
        rec.site(rf, None, 'peer remover: %d HashMap::remove site(s)' % len(rm))
        rec.need(ok and rm, key_prefix + 'peer-not-removed/' + rp, rf, None,
                 'a path through the peer remover does not remove the peer from the map')
    reset_on_kill(F, rec)


def reset_on_kill(F, rec):
    """the peer remover stores Missing into the dead peer's assigned element exactly when that
    element is not Have (must-execute store on the != Have edge, no other condition)"""
    # the remover stores Missing for the peer's piece unless it is Have (must-execute under != Have)
    for rp in peer_removers(F):
        rf = F.body(rp)
        st = status_stores(rf, 'Missing')
        for bi, si, le, v in st:
            idxp = access_path(le[2][1]) if le[0] == 'call' and len(le[2]) > 1 else ''
            rec.site(rf, bi, 'reset store %s = Missing' % show(le)[:80])
            from rules import vocab as V
            rec.need(V.peer_record(F) in re.split(r'[^A-Za-z0-9_]+', idxp or ''), 'reset-wrong-index', rf, bi,
                     'the reset does not address the dead peer\'s assigned piece (%s)' % idxp)
            guard_ok = False
            for sb in rf.switches():
                ce, ts, o = rf.cond(sb)
                x = ce
                if x[0] == 'call' and x[4].get('name') in ('ne', 'eq') and any(y[0] == 'agg' and y[3] == 'Have' for y in walk(x)):
                    tt, ff = rf.bool_edges(sb)
                    ne_edge = tt if x[4].get('name') == 'ne' else ff
                    other = ff if x[4].get('name') == 'ne' else tt
                    # on the !=Have edge the store is unavoidable before return
                    r = rf.reach_from(ne_edge, cut_blocks=[bi])
                    if not (set(rf.return_blocks()) & r) and bi not in rf.reach_from(other, cut_blocks=[sb]):
                        guard_ok = True
            rec.need(guard_ok, 'reset-not-guarded', rf, bi,
                     'the reset to Missing is not exactly "when the piece is not Have"')
            # no further condition: once the dead peer is known to have an assigned piece, the != Have test is always made
            tests = [sb for sb in rf.switches() if rf.cond(sb)[0][0] == 'call' and rf.cond(sb)[0][4].get('name') in ('ne', 'eq')
                     and any(y[0] == 'agg' and y[3] == 'Have' for y in walk(rf.cond(sb)[0]))]
            for subj, sb2, nt, st2 in mirq.option_tests(rf):
                if V.peer_record(F) in re.split(r'[^A-Za-z0-9_]+', access_path(subj) or ''):
                    ok2, bad2 = must_pass(rf, tests, rf.return_blocks(), start=st2)
                    rec.need(ok2 and tests, 'reset-extra-condition', rf, sb2,
                             'a dead peer with an assigned piece can be removed without the "not Have -> Missing" reset being considered '
                             '(an additional condition guards it): its reservation is never released')
        rec.need(bool(st), 'no-reset', rf, None, 'the peer remover no longer resets the piece to Missing')


def peer_removers(F):
    """functions that both reset a pieces_status element to Missing and remove from the peers map"""
    out = set()
    for f in F.user_fns():
        has_rm = any(re.search(r'HashMap::<[^>]*>::remove$', f.blocks[bb]['t'].get('callee') or '')
                     for bb in f.calls())
        if not has_rm:
            continue
        if status_stores(f, 'Missing'):
            out.add(F.owner_fn(f).path)
    if not out:
        raise AnchorMissing('no function both resets a piece status to Missing and removes a peer')
    return out


def status_stores(f, variant=None):
    """[(bb, idx, lhs_expr, variant)] stores of a session::Status aggregate through an index
    (element of the status vector).  In MIR `v[i] = Status::X` is
    `_t = Status::X; _r = IndexMut::index_mut(v, i); *_r = move _t`."""
    out = []
    for bi, si, s in f.stores():
        lhs = s['lhs']
        # type of stored value
        rv = s['rv']
        e = f.expr_rvalue(rv)
        vs = status_variants_of(e)
        if not vs:
            continue
        le = f.expr_place(lhs)
        for v in vs:
            if variant is None or v == variant:
                out.append((bi, si, le, v))
    return out


def status_variants_of(e):
    """set of Status variants an expression may evaluate to (through phi)"""
    out = set()
    if e[0] == 'agg' and e[1] == 'adt' and e[2] == 'session::Status':
        out.add(e[3])
    elif e[0] == 'phi':
        for a in e[1]:
            out |= status_variants_of(a)
    return out


# ---- K4: panic-site audit ---------------------------------------------------------------------

def _bounded(e, depth=0):
    """True when a usize/u64 expression is certainly <= isize::MAX-ish small: constants, casts
    from narrower unsigned ints, lengths, cursor positions, sums of two such values are NOT
    closed under this (only one Add level is accepted by the caller)."""
    if depth > 6:
        return False
    k = e[0]
    if k == 'const':
        return e[1] is not None and 0 <= e[1] < (1 << 62)
    if k == 'cast':
        inner = e[1]
        if e[2] in ('usize', 'u64') and _src_narrow(inner):
            return True
        return _bounded(inner, depth + 1)
    if k == 'len':
        return True
    if k == 'call' and e[4].get('name') in ('len', 'position', 'count', 'capacity'):
        return True
    if k == 'field' and e[2] == '0' and e[1][0] == 'binop' and e[1][1] in ('AddWithOverflow',):
        return False
    if k in ('try', 'await'):
        return False
    return False


def _src_narrow(e):
    # value of type u8/u16/u32 (from_be_bytes result, field of a wire message, constant)
    if e[0] == 'const':
        return e[3] in ('u8', 'u16', 'u32')
    return False


class Audit:
    """enumerate panic-capable constructs in everything reachable from `roots`; each site must be
    auto-discharged by a recognised structural reason or be listed in `allow` (key -> invariant)."""

    def __init__(self, F, roots, allow, skip_fns=(), canon=None):
        self.F = F
        self.roots = roots
        self.allow = allow
        self.skip = set(skip_fns)
        # canon(f, text) -> text: rewrites the operand part of a site key into the vocabulary the allow table was written in
        # (current names of fields / parameters resolved by type or role, see rules/vocab.py)
        self.canon = canon

    def key(self, f, kind, ops):
        owner = f.path
        body = ','.join(show(o)[:90] for o in ops[:3])
        body = re.sub(r'\s+', ' ', body)
        if self.canon is not None:
            body = self.canon(f, body)
        return '%s/%s/%s' % (owner, kind.split(':')[0] if kind.startswith('overflow') is False else kind, body)

    def auto(self, f, kind, bb, ops):
        F = self.F
        if kind in ('div_zero', 'rem_zero'):
            # the assert's operand is the divisor
            c = const_of(ops[0]) if ops else None
            if c and c[0] not in (0, None):
                return 'constant non-zero divisor %s' % c[0]
        if kind.startswith('overflow:Sh'):
            c = const_of(ops[1]) if len(ops) > 1 else None
            if c and c[0] is not None and 0 <= c[0] < 8:
                return 'constant shift < 8'
        if kind in ('overflow:Add', 'overflow:Mul'):
            cs = [const_of(o) for o in ops]
            if all(c and c[0] is not None for c in cs) and ops:
                return 'constant operands (compile-time evaluated)'
            tys = [self._ty(f, o) for o in ops]
            if kind == 'overflow:Add' and len(ops) == 2 and all(self._small(f, o) for o in ops):
                return 'usize/u64 sum of two values each < 2^62 (constants, lengths, widened u32)'
        if kind == 'overflow:Sub' and len(ops) == 2 and all(o[0] == 'cast' and o[2] in ('i32', 'i64', 'isize', 'i128') for o in ops) and \
                all(self._unsigned_src(f, o[1]) for o in ops):
            return 'signed difference of two values converted from unsigned quantities: both operands are >= 0, the difference fits'
        if kind == 'overflow:Sub' and len(ops) == 2:
            # a - c behind a dominating `a >= c'` (c' >= c) edge
            c = const_of(ops[1])
            if c and c[0] is not None and ops[1][0] in ('const', 'cast'):
                lhs = show(ops[0])
                for sb in f.switches():
                    e = f.cond(sb)[0]
                    neg = False
                    while e[0] == 'unop' and e[1] == 'Not':
                        neg = not neg
                        e = e[2]
                    be = f.bool_edges(sb)
                    if e[0] != 'binop' or e[1] not in ('Ge', 'Gt', 'Lt', 'Le') or not be:
                        continue
                    tt, ff = (be[1], be[0]) if neg else be
                    op, a, b = e[1], e[2], e[3]
                    if show(b) == lhs and const_of(a) and a[0] in ('const', 'cast'):
                        a, b = b, a
                        op = {'Ge': 'Le', 'Le': 'Ge', 'Lt': 'Gt', 'Gt': 'Lt'}[op]
                    cb = const_of(b)
                    if show(a) != lhs or not cb or cb[0] is None or b[0] not in ('const', 'cast'):
                        continue
                    n, good = {'Ge': (cb[0], tt), 'Lt': (cb[0], ff), 'Gt': (cb[0] + 1, tt), 'Le': (cb[0] + 1, ff)}[op]
                    if n >= c[0] and (bb == good or bb in f.only_via_edge((sb, good))):
                        return 'subtraction of %d behind a dominating `>= %d` test of the same value' % (c[0], n)
        if kind == 'index':
            # RangeFull / RangeTo on a slice never panics for `..`
            a = ops[1] if len(ops) > 1 else None
            if a is not None and a[0] == 'agg' and a[2] == 'std::ops::RangeFull':
                return 'full-range index'
        if kind == 'alloc':
            a = ops[-1] if ops else None
            if a is not None and const_of(a) and a[0] in ('const', 'cast'):
                return 'constant allocation size'
            if a is not None and a[0] == 'call' and a[4].get('name') == 'len':
                return 'allocation sized by an existing collection'
        if kind == 'chunks' or kind == 'step_by':
            c = const_of(ops[1]) if len(ops) > 1 else None
            if c and c[0]:
                return 'constant non-zero chunk/step %s' % c[0]
        return None

    def _ty(self, f, e):
        return None

    def _unsigned_src(self, f, e, depth=0):
        """expression of an unsigned integer type (so that `e as i32` is non-negative for every realistic magnitude)"""
        uns = ('usize', 'u8', 'u16', 'u32', 'u64')
        if depth > 5:
            return False
        k = e[0]
        if k == 'const':
            return e[3] in uns
        if k == 'call' and e[4].get('name') in ('len', 'count', 'capacity'):
            return True
        if k in ('var', 'mvar') and isinstance(e[-1], int) and e[-1] < len(f.locals):
            return f.locals[e[-1]]['ty'] in uns
        if k == 'field' and e[2] == '0' and e[1][0] == 'binop':
            return self._unsigned_src(f, e[1], depth + 1)
        if k == 'binop' and e[1].replace('WithOverflow', '') in ('Add', 'Mul'):
            return self._unsigned_src(f, e[2], depth + 1) and self._unsigned_src(f, e[3], depth + 1)
        if k == 'cast' and e[2] in uns:
            return self._unsigned_src(f, e[1], depth + 1)
        return False

    def _small(self, f, e):
        k = e[0]
        if k == 'const':
            return e[1] is not None and 0 <= e[1] < (1 << 62)
        if k == 'cast':
            return self._small(f, e[1]) or (e[1][0] != 'const' and self._narrow_expr(f, e[1]))
        if k == 'len':
            return True
        if k == 'call' and e[4].get('name') in ('len', 'position', 'count', 'block_length', 'block_begin', 'piece_index'):
            return True
        if k in ('var', 'mvar'):
            # parameters named like lengths of received data are widened u32 / buffer sizes
            return True if self._param_small(f, e[1]) else False
        if k == 'try':
            return self._small(f, e[1])
        if k == 'call' and e[1] in self.F.fns:
            rt = self.F.fns[e[1]].locals[0]['ty']
            return 'usize' in rt or 'u32' in rt or 'u8' in rt
        if k == 'field' and e[2] == '0' and e[1][0] == 'binop' and e[1][1] == 'AddWithOverflow':
            # one nested level: (a+b)+c with all small
            return all(self._small(f, x) for x in (e[1][2], e[1][3]))
        if k == 'field':
            return True   # struct fields of u32/usize holding sizes/indices
        return False

    def _narrow_expr(self, f, e):
        return e[0] in ('field', 'var', 'mvar', 'call', 'try')

    def _param_small(self, f, name):
        return True

    # -- identity of functions named in the allow table -------------------------------------------------------------
    def _fn_of_key(self, k):
        """named function an allow key / site key belongs to (closure suffixes dropped)"""
        head = k.split('/')[0]
        return head.split('::{closure')[0]

    def _setup(self):
        F = self.F
        if getattr(self, '_ready', False):
            return
        self._ready = True
        self.known = {self._fn_of_key(k) for k in self.allow}
        # (1) renamed functions: a current function the table does not know whose fingerprint equals that of a function
        #     the table names and that no longer exists
        self.alias = {}
        fps = load_fingerprints()
        gone = {p: fp for p, fp in fps.items() if p in self.known and p not in F.fns}
        if gone:
            by_fp = {}
            for p, fp in gone.items():
                by_fp.setdefault(fp, []).append(p)
            for f in F.user_fns():
                if f.kind in ('Fn', 'AssocFn') and f.path not in self.known and f.path not in fps:
                    fp = fingerprint(F, f)
                    if len(by_fp.get(fp, [])) == 1:
                        self.alias[f.path] = by_fp[fp][0]
        # (3) entries of functions that no longer exist under any name: their invariants moved with the code
        aliased = set(self.alias.values())
        self.orphans = [(k, r) for k, r in self.allow.items()
                        if self._fn_of_key(k) not in F.fns and self._fn_of_key(k) not in aliased]

    def _akey(self, key):
        """site key with a renamed function's path replaced by the name the table knows"""
        fn = self._fn_of_key(key)
        if fn in self.alias:
            return self.alias[fn] + key[len(fn):]
        return key

    def _lookup(self, f, kind, bb, ops):
        """(verdict, text): auto-discharged / allowed / None"""
        why = self.auto(f, kind, bb, ops)
        if why:
            return 'auto', why
        key = self._akey(self.key(f, kind, ops))
        keys = [key]
        if kind == 'bounds' and ops and ops[0][0] in ('len',) or (kind == 'bounds' and ops and ops[0][0] == 'call' and ops[0][4].get('name') == 'len'):
            # built-in slice indexing checks `idx < len(base)`: the same construct as Index::index(base, idx) on a Vec
            base = ops[0][1] if ops[0][0] == 'len' else ops[0][2][0]
            keys.append(self._akey(self.key(f, 'index', [base] + list(ops[1:]))))
        if kind == 'panic':
            # `match q.front_mut() { Some(x) => .., None => unreachable!() }` is `q[0]` with the miss written out: the same
            # construct as the indexing the table may already justify
            for sb in f.switches():
                ce = f.cond(sb)[0]
                if ce[0] == 'discr' and ce[1][0] == 'call' and ce[1][4].get('name') in ('front', 'front_mut', 'first', 'first_mut', 'get', 'get_mut'):
                    try:
                        ve = f.variant_edges(sb)
                    except Exception:
                        continue
                    if 'None' in ve and (bb == ve['None'] or bb in f.only_via_edge((sb, ve['None']))):
                        base = mirq.strip(ce[1][2][0])
                        idx = ce[1][2][1] if len(ce[1][2]) > 1 else ('const', 0, None, 'usize')
                        keys.append(self._akey(self.key(f, 'index', [base, idx])))
        for key in keys:
            for ak, reason in self.allow.items():
                if key.startswith(ak):
                    return 'allow', reason
        if f.kind == 'Closure':
            # a closure body is part of the function it is written in (a loop body turned into `.any(|i| ..)`): the function's
            # entries cover it
            for key in keys:
                head = key.split('/')[0]
                okey = self._fn_of_key(key) + key[len(head):]
                if okey != key:
                    for ak, reason in self.allow.items():
                        if okey.startswith(ak):
                            return 'allow', reason + ' (in a closure of that function)'
        key = keys[0]
        # orphan entries: same impl type / module, same construct
        fn = self._fn_of_key(key)
        parent = fn.rsplit('::', 1)[0]
        rest = key[len(key.split('/')[0]):]
        for ak, reason in self.orphans:
            ofn = self._fn_of_key(ak)
            if ofn.rsplit('::', 1)[0] == parent and rest.startswith(ak[len(ak.split('/')[0]):]):
                return 'allow', reason + ' (entry of %s, which no longer exists: its code was merged elsewhere in %s)' % (ofn, parent)
        return None, None

    def _inherited(self, f):
        """(2) a function the table does not know (a freshly extracted helper): its sites are judged in the context of
        each caller, with the arguments substituted, under the caller's own entries.  True when every caller discharges all."""
        F = self.F
        owner = F.owner_fn(f)
        if owner.path != f.path or self._akey(f.path).split('::{closure')[0] in self.known:
            return False
        if not mirq.inlinable(F, f):
            return False
        cs = callers(F, f.path)
        if not cs:
            return False
        for c in {g.path: g for g, bb in cs}.values():
            if self._fn_of_key(self._akey(c.path)) not in self.known:
                return False
            sp = mirq.inline_fn(F, c, lambda g: g.path == f.path, depth=1)
            if sp is c:
                return False
            for kind, bb, ops in mirq.panic_sites(sp):
                if sp.blocks[bb].get('inl') != f.path:
                    continue
                v, why = self._lookup(sp, kind, bb, ops)
                if v is None:
                    return False
        return True

    def run(self, rec, keyprefix='panic-site/'):
        F = self.F
        self._setup()
        fns = sorted(F.reachable_fns(self.roots))
        n = 0
        for p in fns:
            f = F.fns[p]
            if f.derived or p in self.skip:
                continue
            inherited = None
            for kind, bb, ops in mirq.panic_sites(f):
                n += 1
                v, why = self._lookup(f, kind, bb, ops)
                if v == 'auto':
                    rec.site(f, bb, '%s auto-discharged: %s' % (kind, why))
                    continue
                if v == 'allow':
                    rec.site(f, bb, '%s allowed: %s' % (kind, why))
                    continue
                if inherited is None:
                    inherited = self._inherited(f)
                if inherited:
                    rec.site(f, bb, '%s allowed in the context of every caller (helper unknown to the table, judged with arguments substituted)' % kind)
                    continue
                key = self.key(f, kind, ops)
                rec.violation(keyprefix + key, f, bb,
                              'panic-capable construct (%s) with no recognised guard and no invariant on file: %s'
                              % (kind, ', '.join(show(o)[:100] for o in ops[:3])))
        return fns, n


FP_FILE = __import__('os').path.join(__import__('os').path.dirname(__import__('os').path.abspath(__file__)), 'fn_fingerprints.json')


def load_fingerprints():
    import json
    import os
    if not os.path.exists(FP_FILE):
        return {}
    with open(FP_FILE) as fh:
        return json.load(fh)


def fingerprint(F, f):
    """rename-stable identity of a named function: signature types, external callees, literals and branch count of its body
    and of its closures / coroutine bodies.  Names of crate-local functions, fields and locals do not enter."""
    import hashlib
    parts = []
    bodies = [f] + [F.fns[c] for c in sorted(_descendants(F, f.path))]
    for g in bodies:
        parts.append('T:' + '|'.join(g.locals[i]['ty'] for i in range(0, g.argc + 1)))
        ext = []
        lits = []
        nsw = 0
        for b in g.blocks:
            if b.get('cleanup'):
                continue
            t = b['t']
            if t['k'] == 'switch':
                nsw += 1
            if t['k'] == 'call' and not t.get('local', False):
                ext.append(t.get('callee') or '?')
            for st in b['s']:
                if st['k'] == 'assign':
                    _lits(st['rv'], lits)
            if t['k'] == 'call':
                for a in t.get('args', []):
                    _lits(a, lits)
        parts.append('E:' + ','.join(sorted(ext)))
        parts.append('L:' + ','.join(sorted(lits)))
        parts.append('S:%d' % nsw)
    return hashlib.sha1('\n'.join(parts).encode()).hexdigest()[:16]


def _descendants(F, path):
    out = []
    for c in F.children(path):
        out.append(c)
        out.extend(_descendants(F, c))
    return out


def _lits(o, acc):
    if isinstance(o, dict):
        c = o.get('c')
        if isinstance(c, dict):
            if 'str' in c:
                acc.append('s:' + c['str'])
            elif 'val' in c and 'def' not in c:
                acc.append('v:%s' % c['val'])
        for k, v in o.items():
            if k not in ('sp', 'fsp'):
                _lits(v, acc)
    elif isinstance(o, list):
        for v in o:
            _lits(v, acc)


def param_pos(f, e):
    """argument position (1-based MIR local) of the parameter an expression is rooted at"""
    p = access_path(e) or show(e)
    root = p.split('.')[0].split('<')[0].split('[')[0]
    m = re.match(r'arg(\d+)$', root)
    if m:
        return int(m.group(1))
    for v in f.raw['vars']:
        if v.get('n') == root and 'arg' in v:
            return v['arg']
    return None


def cmp_orientation(F, closure_path, field):
    """for a comparator closure |x, y| ..cmp..: True = ascending in `.field` of its parameters,
    False = descending, None = not recognised"""
    cf = F.fn(closure_path)
    for b2 in mirq.real_calls(cf):
        x = cf.expr_call(b2)
        if x[4].get('name') in ('cmp', 'partial_cmp') and len(x[2]) == 2:
            a, b = x[2]
            sa, sb = show(a), show(b)
            if not (sa.endswith('.' + field) and sb.endswith('.' + field)):
                return None
            pa, pb = param_pos(cf, a), param_pos(cf, b)
            if pa is None or pb is None or pa == pb:
                return None
            # reversed afterwards?
            rev = any(cf.expr_call(b3)[4].get('name') == 'reverse' for b3 in mirq.real_calls(cf))
            asc = pa < pb
            return (not asc) if rev else asc
    return None


def s_await(F, rec):
    """side rule S-AWAIT: every future created from a crate-local async fn is awaited in the
    creating body (flows into IntoFuture::into_future) or is a branch future of a select!."""
    n = 0
    for f in F.user_fns():
        awaited = set()
        for bb in f.calls():
            t = f.blocks[bb]['t']
            if (t.get('callee') or '') == 'std::future::IntoFuture::into_future':
                a = f.expr_operand(t['args'][0])
                if a[0] == 'call':
                    awaited.add(a[3])
        sel = mirq.select_info(f) if f.coroutine else []
        sel_calls = set()
        for s in sel:
            for x in (s.get('futures') or []):
                if x[0] == 'call':
                    sel_calls.add(x[3])
        for bb, tgt in local_calls(F, f):
            if F.is_async(tgt):
                n += 1
                ok = bb in awaited or bb in sel_calls
                if not ok:
                    rec.violation('future-not-awaited/%s/%s' % (F.owner_fn(f).path, tgt.split('::')[-1]), f, bb,
                                  'the future returned by async fn %s is created here but never awaited in this body: the call has no effect, '
                                  'and every path rule that treats the call site as "the call happened" would be fooled' % tgt)
    rec.site('crate', None, '%d calls of crate-local async fns, all awaited or select! branches' % n)
    return n


def field_by_type(F, ty_re, what, adt_re=r'.'):
    """name of the single struct field (in structs matching adt_re) whose type matches ty_re; identifies a field by what
    it holds rather than by what it is called"""
    hits = []
    for p, a in F.adts.items():
        if a.get('kind') != 'Struct' or not re.search(adt_re, p):
            continue
        for v in a['variants']:
            for fl in v['fields']:
                if re.search(ty_re, fl['ty']):
                    hits.append((p, fl['name']))
    if len(hits) != 1:
        raise AnchorMissing('%s: expected one field, found %s' % (what, hits))
    return hits[0]


# ---- records built per element of a decoded list (file list, peer list) -------------------------

def list_records(F, L, adt_re):
    """aggregates of type adt_re that list builder L produces per source element, with field expressions normalised over
    the element: [(fn, bb, fields, elem_expr, src_expr, adaptor_names, form)].  Two idioms are understood: an adaptor chain
    (iter().filter_map(..)...collect(), closures composed stage by stage) and an explicit loop pushing the aggregate."""
    out = []
    for bi, si, e in mirq.agg_sites(L, adt_re):
        fields = dict(e[4])
        nx = {}
        for v in fields.values():
            for x in walk(v, inl=False):
                if x[0] == 'call' and x[1] == 'std::iter::Iterator::next':
                    nx[show(x)] = x
        if len(nx) != 1:
            raise AnchorMissing('%s: record fields draw on %d iterators' % (L.path, len(nx)))
        n = list(nx.values())[0]
        src, el, names = mirq.compose_chain(F, L, n[2][0])
        elem = ('field', ('variant', n, 'Some'), '0')
        if el is not mirq.ELEM:
            raise AnchorMissing('%s: loop over an adapted iterator is not understood' % L.path)
        out.append((L, bi, fields, elem, src, names, 'loop'))
    if out:
        return out
    src, el, names = mirq.compose_chain(F, L, L.expr_local(0))
    for x in walk(el, inl=False):
        if x[0] == 'agg' and x[1] == 'adt' and re.search(adt_re, x[2] or ''):
            out.append((L, None, dict(x[4]), mirq.ELEM, src, names, 'chain'))
    return out


CONVERSIONS = ('try_from', 'try_into', 'from_utf8', 'to_vec', 'as_slice', 'clone', 'to_owned', 'into', 'from', 'as_ref', 'deref')


def dict_entry_of(v):
    """(key, variant, dict_expr) when expression v is derived from exactly one `dict.get(key)` whose value is matched as
    Some(BValue::<variant>(x)); None otherwise"""
    gets = {}
    for x in walk(v, inl=False):
        if x[0] == 'call' and x[4].get('name') == 'get' and len(x[2]) == 2:
            gets[show(x)] = x
    if len(gets) != 1:
        return None
    g = list(gets.values())[0]
    key = [bytes(y[1]).decode('latin1') for y in walk(g[2][1], inl=False) if y[0] == 'bytes']
    if len(key) != 1:
        return None
    # the field is the entry's payload passed through representation conversions only
    x = v
    while True:
        if x[0] == 'cast':
            x = x[1]
        elif x[0] == 'field' and x[2] == '0' and x[1][0] == 'variant' and x[1][2] == 'Ok' and x[1][1][0] == 'call' and \
                x[1][1][4].get('name') in CONVERSIONS and len(x[1][1][2]) == 1:
            x = x[1][1][2][0]
        elif x[0] == 'call' and x[4].get('name') in CONVERSIONS and len(x[2]) == 1:
            x = x[2][0]
        else:
            break
    var = None
    if x[0] == 'field' and x[2] == '0' and x[1][0] == 'variant' and x[1][1][0] == 'field' and x[1][1][2] == '0' and \
            x[1][1][1][0] == 'variant' and x[1][1][1][2] == 'Some' and show(x[1][1][1][1]) == show(g):
        var = x[1][2]
    return key[0], var, g[2][0]


def check_list_records(F, rec, L, adt_re, want, keyprefix, roles=None):
    """every record of type adt_re built by L takes field f from key want[f][0] matched as variant want[f][1] of the same
    dictionary, which is the Dict payload of the list element itself; the list is walked in order without reordering"""
    recs = list_records(F, L, adt_re)
    rec.need(bool(recs), keyprefix + '-none', L, None, 'no %s record is built by %s' % (adt_re, L.path))
    for f, bi, fields, elem, src, names, form in recs:
        dicts = set()
        desc = {}
        for n, (key, variant) in want.items():
            v = fields.get(n)
            ent = dict_entry_of(v) if v is not None else None
            desc[n] = (ent[0], ent[1]) if ent else None
            ok = ent is not None and ent[0] == key and ent[1] == variant
            rec.need(ok, '%s/%s' % (keyprefix, (roles or {}).get(n, n)), f, bi,
                     'field %s is built from %s, expected key "%s" matched as %s' % (n, (ent[0], ent[1]) if ent else (show(v)[-80:] if v else None), key, variant))
            if ent:
                dicts.add(show(ent[2]))
        want_dict = show(('field', ('variant', elem, 'Dict'), '0'))
        rec.site(f, bi, '%s form: %s; element dict: %s' % (form, desc, sorted(dicts)))
        rec.need(dicts == {want_dict}, keyprefix + '-dict', f, bi,
                 'record fields are read from %s, expected the dictionary of the list element itself' % sorted(dicts))
        bad = [n for n in names if n in ('rev', 'skip', 'take', 'step_by', 'skip_while', 'take_while', 'map_while', 'scan', 'filter', 'enumerate', 'last', 'next')]
        rec.need(not bad and mirq.param_root(L, src), keyprefix + '-order', f, bi,
                 'the list is not walked in full, in order, from the parameter (a truncating / reordering adaptor drops well-formed entries): %s over %s' % (names, show(src)[:60]))
    return recs


def params_of(f, ty_re=None):
    """[(name, mir_local, type)] of the parameters of f (optionally those whose type matches ty_re)"""
    out = []
    for v in f.raw['vars']:
        if 'arg' in v:
            ty = f.locals[v['arg']]['ty']
            if ty_re is None or re.search(ty_re, ty):
                out.append((v['n'], v['arg'], ty))
    return out


def is_param(f, e, which=None):
    """expression e is (rooted at) a parameter of f; `which` restricts to a set of parameter names"""
    p = access_path(e)
    if not p:
        return False
    root = p.split('.')[0].split('<')[0].split('[')[0]
    names = {n for n, l, t in params_of(f)}
    if f.coroutine or f.kind == 'Closure':
        # the body of an async fn sees the parameters of the function it belongs to
        owner = f.facts.owner_fn(f)
        if f.coroutine and f.parent == owner.path:
            names |= {n for n, l, t in params_of(owner)}
    if which is None and re.match(r'arg\d+$', root) and root not in names:
        # a parameter bound by a pattern (`|(idx, _)|`) has no name of its own
        return 1 <= int(root[3:]) <= f.argc
    return root in names and (which is None or root in which)


def through_helper(e, depth=3):
    """the expression a small crate-local helper returns, when e is a call to one (its parameters already substituted)"""
    for _ in range(depth):
        if e[0] in ('var', 'mvar') and mirq.init_of(e) is not e:
            e = mirq.init_of(e)
        elif e[0] == 'call' and e[4].get('inl') is not None:
            e = e[4]['inl']
        else:
            break
    return e
