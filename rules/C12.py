"""C12 -- no missing piece is ever withheld by a stale reservation (pairing rules).

One unit of Reserved(n) on element i is a resource recorded in Peer.piece_index = Some(i).
Acquire = storing Reserved(n+1)/Reserved(1) into status[i]; release = storing Reserved(n-1)/Missing
(from a match on that element), the reset in the peer remover, or the Have store.  The patterns
are recognised on MIR, per feasible path of each handler (path-resolved values).  Decides:
(1) every acquire of i is on a path that records piece_index = Some(i); (2) every overwrite of
piece_index that may drop Some(old) is preceded by a release of old, or happens on a path where
the peer is known to be choking us (choke released it) / the old value is known to be None, or in
a function whose callers released or converted old just before; (3) every acquire is justified by
a request for the same i in the command returned; (4) the choke handler releases the recorded
element and records choked; (5) monotonic ownership: Missing/Reserved is stored only on paths
that exclude Have for that element; (6) only advertised, lacking pieces are asked for; (7) panic
audit of the manager's handlers."""
import re
import mirq
from mirq import show, access_path, AnchorMissing, const_of, walk
from rulekit import Table
from rules import common as C
from rules import vocab as V

TABLE = Table('C12')
NOT_DECIDED = ('the full counter invariant "n = number of unchoked peers fetching i" over all histories (a relational '
               'invariant over run-time state; the pairing rules are its per-handler necessary conditions).')


def classify(v, elem_show):
    """kind of a Status value stored into an element"""
    if v[0] == 'agg' and v[2] == 'session::Status':
        if v[3] == 'Have':
            return 'have'
        if v[3] == 'Missing':
            return 'missing'
        if v[3] == 'Reserved':
            x = v[4][0][1]
            c = const_of(x)
            if c is not None and x[0] == 'const':
                return 'one' if c[0] == 1 else 'const%s' % c[0]
            while x[0] == 'field' and x[2] == '0':
                x = x[1]
            if x[0] == 'binop' and const_of(x[3]) and const_of(x[3])[0] == 1 and 'Reserved>.0' in show(x[2]):
                if x[1].startswith('Add'):
                    return 'inc'
                if x[1].startswith('Sub'):
                    return 'dec'
            return 'reserved:' + show(x)[:40]
    return 'other'


def status_events(f, path):
    """[(kind, index_path, bb, elem_show)] for stores into the status vector along a path"""
    out = []
    for pi, bb in enumerate(path):
        for si, s in enumerate(f.blocks[bb]['s']):
            if s['k'] != 'assign' or not s['lhs'].get('p'):
                continue
            le = f.expr_place(s['lhs'])
            if not V.status_elem(f, le):
                continue
            rv = s['rv']
            if rv['k'] == 'use':
                p = rv['op'].get('mv') or rv['op'].get('cp')
                if p and not p.get('p'):
                    v = mirq.value_on_path(f, path, p['l'], (pi, si))
                else:
                    v = f.expr_rvalue(rv)
            else:
                v = f.expr_rvalue(rv)
            idx = le[2][1]
            out.append((classify(v, show(le)), access_path(idx) or show(idx), bb, show(idx)))
    return out


def record_events(f, path):
    """[(value_desc, bb)] for stores to self.piece_index along the path: 'Some:<idx>' / 'None' / 'opt:<path>'"""
    out = []
    for pi, bb in enumerate(path):
        for si, s in enumerate(f.blocks[bb]['s']):
            if s['k'] == 'assign' and s['lhs'].get('p') and access_path(f.expr_place(s['lhs'])) == rec_path(f.facts):
                v = f.expr_rvalue(s['rv'])
                if v[0] == 'agg' and v[3] == 'Some':
                    out.append(('Some:' + (access_path(v[4][0][1]) or show(v[4][0][1])), bb))
                elif v[0] == 'agg' and v[3] == 'None':
                    out.append(('None', bb))
                else:
                    out.append(('opt:' + (access_path(v) or show(v)), bb))
    return out


def rec_path(F):
    """`self.<field>` of the Peer field recording the piece the peer is fetching"""
    return 'self.' + V.peer_record(F)


def choked_path(F):
    """`self.<field>` of the Peer flag: this peer is choking us"""
    return 'self.' + V.peer_choked(F)


def _touches(f):
    for bi, si, s in f.stores():
        le = f.expr_place(s['lhs'])
        if V.status_elem(f, le) or access_path(le) == rec_path(f.facts):
            return True
    return False


def _relevant(g):
    """callee that takes part in reservation bookkeeping: a Status in its signature, or a store to piece_index"""
    return any('session::Status' in g.locals[i]['ty'] for i in range(g.argc + 1)) or \
        any(access_path(g.expr_place(s['lhs'])) == rec_path(g.facts) for bi, si, s in g.stores())


def _pure(g):
    return not any(g.locals[i]['ty'].startswith('&mut ') for i in range(1, g.argc + 1))


def _splice(f, g):
    """is callee g spliced into caller f?  pure helpers always; helpers with `&mut` parameters only into synchronous
    callers of the same type (a `&mut self` method called from another type's code is that object's own handler)"""
    if _pure(g):
        return True
    if f.coroutine:
        return False
    return g.self_ty is None or g.self_ty == f.self_ty


def spliced_fns(F):
    """every user function with its bookkeeping helpers spliced in (MIR-level inlining): a pure helper
    (`fn released(&Status) -> Status`) is inlined everywhere, a helper with `&mut` parameters into synchronous callers of
    the same type; a helper inlined at every call site is not listed on its own."""
    if getattr(F, '_c12_spliced', None) is not None:
        return F._c12_spliced
    not_inlined_somewhere = set()
    has_callers = set()
    for f in F.user_fns():
        for bb, tgt in C.local_calls(F, f):
            g = F.fns.get(tgt)
            if g is None or not mirq.inlinable(F, g) or not _relevant(g):
                continue
            has_callers.add(tgt)
            if not _splice(f, g):
                not_inlined_somewhere.add(tgt)
    out = []
    for f in F.user_fns():
        if f.path in has_callers and f.path not in not_inlined_somewhere:
            continue
        sel = (lambda g, f=f: _relevant(g) and _splice(f, g))
        out.append(mirq.inline_fn(F, f, sel, depth=3))
    F._c12_spliced = out
    return out


def handlers(F):
    """functions that store into the status vector or into Peer.piece_index (helpers spliced in)"""
    return [f for f in spliced_fns(F) if _touches(f)]


def reqdata_builder(F):
    """the function that builds the request data (ReqData) for a piece index"""
    rd = [f for f in F.user_fns() if mirq.agg_sites(f, r'^commands::ReqData$')]
    return C.one(rd, 'ReqData builder')


def paths_of(f):
    ps = [p for p in mirq.enumerate_paths(f, 0, f.return_blocks()) if p[-1] in f.return_blocks()]
    out = []
    for p in ps:
        pf = mirq.path_facts(f, p)
        if pf is not None:
            out.append((p, pf))
    return out


def same_index(a, b):
    a, b = (a or ''), (b or '')
    return a == b or a.replace('<Some>', '').replace('.0', '') == b.replace('<Some>', '').replace('.0', '')


def norm_idx(x):
    return (x or '').replace('.<Some>', '').replace('<Some>.0', '').replace('<Some>', '')


@TABLE.rule('1', 'K8', 'every acquire of element i records piece_index = Some(i) on the same path', floor=3)
def r1(cx, rec):
    F = cx.F
    n = 0
    for f in handlers(F):
        for p, pf in paths_of(f):
            ev = status_events(f, p)
            recs = record_events(f, p)
            for kind, idx, bb, ish in ev:
                if kind in ('inc', 'one'):
                    n += 1
                    ok = any(norm_idx(r.split(':', 1)[1]) == norm_idx(idx) for r, rb in recs if r != 'None')
                    rec.site(f, bb, 'acquire(%s) recorded: %s' % (idx, [r for r, _ in recs]))
                    rec.need(ok, 'acquire-not-recorded/' + f.path, f, bb,
                             'status[%s] is reserved on a path that does not record the assignment in piece_index: nobody will ever release it' % idx)
    rec.need(n >= 3, 'no-acquire', 'peer', None, 'no reservation sites found')


def callers_released(F, f):
    """every caller stores Have / a release into status[<peer>.piece_index] before calling f"""
    cs = C.callers(F, f.path)
    if not cs:
        return False
    for g, bb in cs:
        ok = False
        for p, pf in paths_of_to(g, bb):
            ev = status_events(g, p)
            if any(kind in ('have', 'dec', 'missing') and V.peer_record(F) in idx for kind, idx, b2, ish in ev):
                ok = True
            else:
                return False
        if not ok:
            return False
    return True


def paths_of_to(f, bb):
    out = []
    for p in mirq.enumerate_paths(f, 0, [bb]):
        if p[-1] != bb:
            continue
        pf = mirq.path_facts(f, p)
        if pf is not None:
            out.append((p, pf))
    return out


@TABLE.rule('2', 'K8', 'an overwrite of piece_index that may drop Some(old) is preceded by a release of old (or choked / None is known, '
            'or all callers released)', floor=4)
def r2(cx, rec):
    F = cx.F
    for f in handlers(F):
        if f.path.startswith('session::') and not any(access_path(f.expr_place(s['lhs'])) == rec_path(F) for bi, si, s in f.stores()):
            continue
        pre = None
        for p, pf in paths_of(f):
            recs = record_events(f, p)
            if not recs:
                continue
            ev = status_events(f, p)
            at = pf['atoms']
            for r, rb in recs[:1]:
                released = any(kind in ('dec', 'missing', 'have') and rec_path(F) in idx and p.index(b2) <= p.index(rb) for kind, idx, b2, ish in ev)
                choked = any(k.endswith(choked_path(F)) and v is True for k, v in at.items())
                none_known = any(('is_none(%s)' % rec_path(F)) in k and v is True for k, v in at.items()) or \
                    any(('is_some(%s)' % rec_path(F)) in k and v is False for k, v in at.items()) or \
                    any(k.startswith('discr(%s)' % rec_path(F)) and v == 'None' for k, v in at.items())
                if pre is None:
                    pre = callers_released(F, f)
                why = 'released' if released else 'peer-choking' if choked else 'old-is-None' if none_known else 'callers-released' if pre else None
                rec.site(f, rb, 'piece_index := %s justified by: %s' % (r, why))
                rec.need(why is not None, 'overwrite-without-release/' + f.path, f, rb,
                         'piece_index is overwritten (:= %s) on a path where the previous assignment may still hold a reservation: '
                         'its Reserved count is never decremented (e.g. two unchokes in a row)' % r)


@TABLE.rule('3', 'K8', 'every acquire is justified: the command returned on that path carries the request data of the same index', floor=3)
def r3(cx, rec):
    F = cx.F
    for f in handlers(F):
        for p, pf in paths_of(f):
            ev = status_events(f, p)
            acq = [(idx, bb) for kind, idx, bb, ish in ev if kind in ('inc', 'one')]
            if not acq:
                continue
            ret = mirq.value_on_path(f, p, 0)
            rs = show(ret)
            for idx, bb in acq:
                reqs = [x for x in walk(ret) if x[0] == 'call' and x[1] == reqdata_builder(F).path]
                ok = any(norm_idx(access_path(x[2][1])) == norm_idx(idx) for x in reqs)
                rec.site(f, bb, 'acquire(%s) -> returns %s' % (idx, rs[:70]))
                rec.need(ok, 'acquire-without-request/' + f.path, f, bb,
                         'status[%s] is reserved on a path that returns %s: no request is sent, yet the piece is withheld from other peers' % (idx, rs[:60]))


@TABLE.rule('3b', 'K8', 'a piece is reserved only for a peer that is not choking us: the acquiring path knows choked == false (or clears it)', floor=3)
def r3b(cx, rec):
    F = cx.F
    for f in handlers(F):
        for p, pf in paths_of(f):
            ev = status_events(f, p)
            acq = [(idx, bb) for kind, idx, bb, ish in ev if kind in ('inc', 'one')]
            if not acq:
                continue
            at = pf['atoms']
            not_choking = any(k.endswith(choked_path(F)) and v is False for k, v in at.items()) or \
                any(sp == choked_path(F) and const_of(v) and const_of(v)[0] == 0 for sp, v, b2 in pf['stores'])
            for idx, bb in acq:
                rec.site(f, bb, 'acquire(%s): peer known not to choke us on this path: %s' % (idx, not_choking))
                rec.need(not_choking, 'acquire-while-choked/' + f.path, f, bb,
                         'status[%s] is reserved on a path that does not establish that the peer is not choking us (self.choked == false): the piece is '
                         'withheld from other peers although this peer will not serve it' % idx)


@TABLE.rule('4', 'K8', 'the choke handler releases the recorded element and records choked = true', floor=2)
def r4(cx, rec):
    F = cx.F
    chs = [f for f in handlers(F) if any(access_path(f.expr_place(s['lhs'])) == choked_path(F) and const_of(f.expr_rvalue(s['rv'])) and const_of(f.expr_rvalue(s['rv']))[0] == 1 for bi, si, s in f.stores())]
    chs = [f for f in chs if f.name != 'new']
    Hc = C.one(chs, 'handler that records choked = true')
    for p, pf in paths_of(Hc):
        ev = status_events(Hc, p)
        at = pf['atoms']
        has = [v for k, v in at.items() if k.startswith('discr(%s)' % rec_path(F))]
        elem = [v for k, v in at.items() if k.startswith('discr(') and 'Index::index' in k and v in ('Missing', 'Reserved', 'Have')]
        if has and has[0] == 'Some':
            kinds = [kind for kind, idx, bb, ish in ev if rec_path(F) in idx]
            rec.site(Hc, p[-1], 'assigned, element %s -> %s' % (elem, kinds))
            rec.need(bool(kinds), 'choke-without-release', Hc, p[-1],
                     'a choke from a peer with an assigned piece can be handled without touching that piece\'s status (a further condition '
                     'skips the release): the reservation stays although the peer will not serve it')
            if elem and elem[0] == 'Reserved':
                rec.need(kinds and kinds[0] in ('dec', 'missing'), 'choke-without-release', Hc, p[-1], 'a choke does not release the reservation (element Reserved -> %s)' % kinds)
            elif elem:
                rec.need(not kinds or kinds[0] in ('have', 'missing'), 'choke-changes-state', Hc, p[-1], 'choke rewrites a %s element to %s' % (elem[0], kinds))
    st = [bi for bi, si, s in Hc.stores() if access_path(Hc.expr_place(s['lhs'])) == choked_path(F)]
    ok, bad = C.must_pass(Hc, st, Hc.return_blocks())
    rec.need(ok, 'choke-not-recorded', Hc, None, 'a path through the choke handler does not record choked = true')
    # dec only under n >= 2
    for p, pf in paths_of(Hc):
        for kind, idx, bb, ish in status_events(Hc, p):
            if kind == 'dec':
                g = any(k.startswith('Ge(') and 'Reserved>.0, 2)' in k and v is True for k, v in pf['atoms'].items()) or \
                    any(k.startswith('Gt(') and 'Reserved>.0, 1)' in k and v is True for k, v in pf['atoms'].items())
                rec.need(g, 'decrement-underflow', Hc, bb, 'Reserved(n) is decremented without n >= 2')


@TABLE.rule('5', 'K7', 'monotonic ownership: Missing / Reserved is stored only on paths that exclude Have for that element', floor=6)
def r5(cx, rec):
    F = cx.F
    for f in handlers(F):
        for p, pf in paths_of(f):
            ev = status_events(f, p)
            for kind, idx, bb, ish in ev:
                if kind in ('have', 'other'):
                    continue
                at = pf['atoms']
                excl = False
                for k, v in at.items():
                    if 'Index::index' not in k or ish not in k:
                        continue
                    if k.startswith('discr(') and v in ('Missing', 'Reserved'):
                        excl = True
                    if 'PartialEq::ne(' in k and 'Have' in k and v is True:
                        excl = True
                    if 'PartialEq::eq(' in k and 'Missing' in k and v is True:
                        excl = True
                    if 'PartialEq::eq(' in k and 'Have' in k and v is False:
                        excl = True
                rec.site(f, bb, 'store %s into status[%s]; Have excluded on this path: %s' % (kind, idx, excl))
                rec.need(excl, 'have-overwritten/' + f.path, f, bb,
                         'status[%s] can be set to %s on a path that does not exclude the element being Have: an owned piece becomes un-owned' % (idx, kind))


@TABLE.rule('6', 'K5b', 'only advertised, lacking pieces are asked for: request indices come from the chooser (or from handle_have\'s own index '
            'under status == Missing after pieces[i] = true)', floor=4)
def r6(cx, rec):
    F = cx.F
    RD = reqdata_builder(F)
    from rules import C13
    Ch = F.owner_fn(C13.chooser(F)).path
    for f, bb in C.callers(F, RD.path):
        idx = f.expr_call(bb)[2][1]
        ip = access_path(idx) or ''
        root = ip.split('.')[0]
        params = [v['n'] for v in f.raw['vars'] if 'arg' in v]
        if root in params and 'chosen' in root:
            # callers pass the chooser's result for this peer
            ok = True
            for g, gb in C.callers(F, f.path):
                a = g.expr_call(gb)[2][params.index(root)]
                a = mirq.init_of(a)
                good = any(x[0] == 'call' and x[1] == Ch for x in walk(a))
                if good:
                    ch = [x for x in walk(a) if x[0] == 'call' and x[1] == Ch][0]
                    tgt_peer = show(g.expr_call(gb)[2][0])
                    good = 'addr' in show(ch[2][1]) and 'addr' in tgt_peer
                ok = ok and good
                rec.site(g, gb, '%s(.., %s)' % (f.name, show(a)[-60:]))
            rec.need(ok, 'request-index-source/' + f.path, f, bb, 'the requested index does not come from the chooser for the same peer')
        else:
            # handle_have idiom
            ok = False
            for p, pf in paths_of_to(f, bb):
                at = pf['atoms']
                missing = any('PartialEq::eq(' in k and 'Missing' in k and ip in k and v is True for k, v in at.items())
                marks = any(sp and 'self.pieces' in sp and const_of(v) and const_of(v)[0] == 1 for sp, v, b2 in pf['stores'])
                ok = missing and marks
                if not ok:
                    break
            rec.site(f, bb, 'request for own index %s under status == Missing after pieces[i] = true: %s' % (ip, ok))
            rec.need(ok, 'request-unadvertised/' + f.path, f, bb, 'a piece is requested that the peer did not advertise or that is not Missing')


@TABLE.rule('6b', 'K1', 'the chooser sees the up-to-date statuses: in a handler that changes a status itself, the change precedes the choice', floor=2)
def r6b(cx, rec):
    F = cx.F
    from rules import C13
    Ch = F.owner_fn(C13.chooser(F)).path
    for f in F.user_fns():
        chs = C.calls_to_fn(F, f, Ch)
        if not chs:
            continue
        direct = [bi for bi, si, s in f.stores() if V.status_elem(f, f.expr_place(s['lhs']))]
        for cb in chs:
            # stores are statements, the call is the terminator: a store in the call's own block precedes it
            after = set()
            for nb in f.succs(cb):
                after |= f.reach_from(nb)
            late = [b for b in direct if b in after]
            rec.site(f, cb, 'chooser call; own status stores: %d, after the choice: %d' % (len(direct), len(late)))
            rec.need(not late, 'choice-before-status-update/' + F.owner_fn(f).path, f, cb,
                     'the piece is chosen before this handler has updated the status vector: the piece that was just completed/released is still '
                     'seen in its old state and can be chosen again (in end game: a piece already owned is requested once more)')


ALLOW = {
    'session::Session::event_loop::{closure#0}/expect/': 'start-up bind / timer / "Can\'t handle command": manager-internal errors (PeerNotFound) are fatal by design',
    'session::Session::kill_view::{closure#0}/expect/': 'join of the view task at shutdown',
    'session::Session::kill_peer::{closure#0}/expect/': 'join of a peer task that already sent KillReq (C19 wait-for rule)',
    'session::Session::kill_tracker::{closure#0}/expect/': 'join of the tracker task after its terminal message (C19)',
    'session::Session::kill_extractor::{closure#0}/expect/': 'join of the extractor task after its terminal message (C19)',
    'session::Session::kill_peer::{closure#0}/index/self.pieces_status': 'index = piece_index recorded by the manager itself (always < pieces_num: chosen by choose_piece_index or validated Have index)',
    'session::Session::choose_piece_index::{closure#0}/index/self.peers,addr': 'HashMap index by addr: every caller fetched self.peers.get_mut(addr) first in the same handler (PeerNotFound otherwise)',
    'session::Session::choose_piece_index::{closure#0}/index/': 'indices < pieces_num by construction (enumerate over vectors of length pieces_num)',
    'session::Session::choose_piece_index::{closure#0}::{closure#': 'indices < pieces_num by construction',
    'session::Session::choose_piece_index::{closure#0}/overflow:Add/': 'u32 availability counter bounded by the number of peers',
    'session::Session::handle_piece_done::{closure#0}/index/self.pieces_status': 'index = piece_index recorded by the manager itself',
    'session::Session::handle_piece_cancel::{closure#0}/index/self.pieces_status': 'index = piece_index recorded by the manager itself',
    'session::Session::timeout_change_conn_state::{closure#0}::{closure#': 'rates are Some: guarded by the any(is_none) early return of the same function',
    'peer::Peer::handle_choke/index/pieces_status,self.piece_index': 'index recorded by the manager itself',
    'peer::Peer::handle_unchoke/index/pieces_status,chosen_index': 'chosen by choose_piece_index (< pieces_num)',
    'peer::Peer::handle_piece/index/pieces_status,chosen_index': 'chosen by choose_piece_index (< pieces_num)',
    'peer::Peer::handle_have/index/': 'index validated by Have::validate(pieces_num) in the connection task before RecvHave is sent (obligation 7b)',
    'peer::Peer::handle_request/index/pieces_status,piece_index': 'guarded by piece_index >= pieces_num -> Ignore just above',
    'peer::Peer::update_pieces/copy_from_slice/': 'bitfield.to_vec(pieces_num) returns exactly pieces_num entries or Err (length validated)',
    'metainfo::Metainfo::piece/index/': 'valid piece index (chosen by the manager / guarded by handle_request)',
    'metainfo::Metainfo::piece_length/overflow:Sub/': 'pieces.len() - 1: at least one piece when called with a valid index',
    'metainfo::Metainfo::piece_length/rem_zero/': 'piece length non-zero by construction (C17)',
    'messages::bitfield::Bitfield::to_vec/overflow:Add/': 'constant divisors / shifts',
    'messages::bitfield::Bitfield::from_vec/overflow:Shr/': 'constant shifts bounded by chunks(8)',
    'peer::Peer::new/alloc/': 'vec![false; pieces_num]: pieces_num = number of hashes of an already parsed torrent (bounded by the torrent file size / 20)',
    'session::Session::choose_piece_index::{closure#0}/alloc/': 'vec![0; pieces_num]: same bound',
}

KNOWN_PANICS = ('Piece downloaded but not requested', 'Piece cancelled but not requested')


@TABLE.rule('7', 'K4', 'panic audit of the manager: no peer event sequence may reach an explicit panic / unwrap / unchecked index', floor=20)
def r7(cx, rec):
    F = cx.F
    pf, psbs = C.peer_cmd_dispatch(F)
    roots = [F.owner_fn(pf).path]
    for f in F.user_fns():
        if f.self_ty == 'session::Session' and f.name in ('timeout_change_conn_state', 'handle_tracker_cmd', 'handle_extractor_cmd', 'spawn_peer_listener', 'spawn_peer_handler', 'event_loop'):
            roots.append(f.path)
    keep = re.compile(r'^(session::|peer::|metainfo::Metainfo::(piece|piece_length|pieces_num|info_hash|total_length)$|messages::bitfield::Bitfield::(to_vec|from_vec)$)')
    skip = {p for p in F.fns if not keep.search(p)}
    def canon(f, text):
        # the table speaks of `pieces_status` (any Status sequence: the manager's field or a parameter receiving it)
        # and of `piece_index` (the Peer's record); map the tree's current names onto those words
        names = {V.status_vec(F)} | {n for n, l, t in C.params_of(f) if 'session::Status' in t}
        for n in names:
            text = re.sub(r'\b%s\b' % re.escape(n), 'pieces_status', text)
        return re.sub(r'\b%s\b' % re.escape(V.peer_record(F)), 'piece_index', text)
    a = C.Audit(F, roots, ALLOW, skip_fns=skip, canon=canon)

    class Proxy:
        def __init__(self, rec):
            self.rec = rec

        def site(self, *a, **k):
            self.rec.site(*a, **k)

        def violation(self, key, f, bb, msg):
            # explicit panics carry their message: key them by it
            if '/panic/' in key:
                m = [x for x in walk(f.expr_call(bb)) if x[0] == 'str']
                txt = m[0][1] if m else 'panic'
                key = 'panic-site/%s/panic/%s' % (f.path, txt)
                msg = 'explicit panic!("%s") reachable from a peer command: the whole session aborts' % txt
            self.rec.violation(key, f, bb, msg)
    fns, n = a.run(Proxy(rec))
    rec.note('%d functions reachable from the manager\'s handlers, %d panic-capable sites' % (len(fns), n))


@TABLE.rule('7b', 'K1', 'indices sent to the manager by the connection task are validated first (Have::validate / Bitfield::validate Ok edge)', floor=2)
def r7b(cx, rec):
    F = cx.F
    for variant, val in (('RecvHave', 'Have::validate'), ('RecvBitfield', 'Bitfield::validate')):
        bs = C.fns_constructing(F, r'^commands::PeerCmd$', variant)
        B = C.one(bs, 'sender of PeerCmd::' + variant)
        bp = F.owner_fn(B).path
        for f, bb in C.callers(F, bp):
            vs = [b2 for b2 in mirq.real_calls(f) if (f.blocks[b2]['t'].get('callee') or '').endswith(val)]
            okreg = set()
            for vb in vs:
                for sb, t in f.outcome_edges(vb).get('ok', []):
                    okreg |= f.only_via_edge((sb, t))
                e = f.expr_call(vb)
                rec.need(access_path(e[2][1]) == 'self.pieces_num', 'validate-arg/' + variant, f, vb, 'validated against %s' % show(e[2][1])[:60])
            rec.site(f, bb, '%s sent only after %s succeeded: %s' % (variant, val, bb in okreg))
            rec.need(bb in okreg, 'unvalidated-index/' + variant, f, bb, '%s is sent to the manager without a successful %s: the manager indexes its vectors with it' % (variant, val))


@TABLE.rule('8', 'K1', 'a peer that goes away gives its piece back: the remover resets the assigned element unless it is Have, with no further '
            'condition (shared kill chain)', floor=1)
def r8(cx, rec):
    C.reset_on_kill(cx.F, rec)
