"""C18 -- the tracker announce names the right torrent and client.

Decides: (1) the 20 info-hash bytes reach the URL string only through a percent-encoder from an
allow-list, directly after the literal `info_hash=`, and the URL starts with the announce URL;
(2) the query table handed to the HTTP client has peer_id <- own id, port <- PORT, left <- total
length, plus uploaded / downloaded / event, and the request is GET create_url(own metainfo);
(3) query awareness: the separator placed before `info_hash=` depends on whether the announce URL
already has a query."""
import re
import mirq
from mirq import show, access_path, AnchorMissing, const_of, walk
from rulekit import Table
from rules import common as C
from rules import vocab as V

TABLE = Table('C18')
NOT_DECIDED = ('what reqwest/url emit on the wire and that percent-decoding yields the bytes '
               '(library semantics; "+" for 0x20 is form encoding).')

ENCODERS = ('url::form_urlencoded::byte_serialize', 'percent_encoding::percent_encode', 'percent_encoding::utf8_percent_encode')


def url_builder(F):
    out = []
    for f in F.user_fns():
        for bb in mirq.real_calls(f):
            if any(x[0] == 'str' and 'info_hash' in x[1] for x in walk(f.expr_call(bb), inl=False)):
                out.append(f)
                break
    return C.one(out, 'function mentioning the literal "info_hash"')


def concat_parts(e):
    """flatten a + b + c (std::ops::Add::add chains on String) into a list"""
    if e[0] == 'call' and e[1] == 'std::ops::Add::add' and len(e[2]) == 2:
        return concat_parts(e[2][0]) + concat_parts(e[2][1])
    return [e]


@TABLE.rule('1', 'K5a', 'info-hash bytes reach the URL only through an allow-listed percent-encoder right after "info_hash="; URL starts with the announce URL', floor=2)
def r1(cx, rec):
    F = cx.F
    U = url_builder(F)
    rets = []
    for bi, b in enumerate(U.blocks):
        t = b['t']
        if t['k'] == 'call' and t['dest']['l'] == 0 and not b.get('cleanup'):
            rets.append((bi, U.expr_call(bi)))
    rec.need(len(rets) == 1, 'url-return', U, None, 'URL builder has %d return expressions' % len(rets))
    for bi, e in rets:
        parts = concat_parts(e)
        desc = []
        for p in parts:
            q = mirq.init_of(p)
            if q[0] == 'str':
                desc.append(('lit', q[1]))
            elif any(x[0] == 'call' and x[1] in ENCODERS for x in walk(q)):
                enc = [x for x in walk(q) if x[0] == 'call' and x[1] in ENCODERS][0]
                # nothing but collection/view adaptors between the encoder and the URL
                post = []
                y = q
                while y[0] in ('call', 'cast', 'mvar'):
                    if y[0] == 'mvar':
                        y = y[2] if y[2] is not None else ('other', '')
                        continue
                    if y[0] == 'cast':
                        y = y[1]
                        continue
                    if y[1] in ENCODERS:
                        break
                    post.append(y[4].get('name'))
                    y = y[2][0] if y[2] else ('other', '')
                muts = [ce[4].get('name') for bb2, ce in mirq.sharing_calls(U, mirq._ident(q))] if mirq._ident(q) else []
                desc.append(('enc', enc[1], show(enc[2][0]), tuple(post), tuple(muts)))
            elif V.mentions_field(q, V.MI, V.meta_announce(F)):
                desc.append(('announce',))
                rec.need(is_announce(F, q), 'url-prefix-rewritten', U, bi,
                         'the URL starts with a rewritten form of the announce URL (%s): path and existing query must be kept as they '
                         'are (trimming, case folding or replacing changes what the tracker receives)' % show(q)[:100])
            elif q[0] in ('var', 'mvar'):
                desc.append(('var', q[1]))
            else:
                desc.append(('other', show(q)[:60]))
        rec.site(U, bi, 'URL = ' + ' + '.join(str(d) for d in desc))
        rec.need(desc and desc[0] == ('announce',), 'url-prefix', U, bi, 'the URL does not start with the torrent\'s announce URL')
        idx = [i for i, d in enumerate(desc) if d[0] == 'lit' and d[1].endswith('info_hash=')]
        rec.need(len(idx) == 1, 'info-hash-literal', U, bi, 'the literal "info_hash=" does not occur exactly once')
        if len(idx) == 1:
            nxt = desc[idx[0] + 1] if idx[0] + 1 < len(desc) else None
            rec.need(nxt is not None and nxt[0] == 'enc' and 'Metainfo::info_hash' in nxt[2], 'info-hash-not-encoded', U, bi,
                     'what follows "info_hash=" is %s, not the percent-encoded info-hash bytes' % (nxt,))
            if nxt is not None and nxt[0] == 'enc':
                bad = [n for n in nxt[3] if n not in ('collect', 'as_str', 'as_ref', 'to_string', 'clone', 'into', 'to_owned', 'deref', 'borrow')] + list(nxt[4])
                rec.need(not bad, 'info-hash-post-processed', U, bi,
                         'the percent-encoded info-hash is modified after encoding (%s): it no longer decodes to the 20 hash bytes' % bad)
                src = nxt[2]
                rec.need(re.fullmatch(r'\(?metainfo::Metainfo::info_hash\(metainfo\)( as &\[u8\]\))?', src) is not None, 'info-hash-source', U, bi,
                         'the encoder is fed %s, not the whole info-hash' % src)
        # raw hash bytes nowhere else
        raw = [d for d in desc if d[0] == 'other' and 'info_hash' in d[1]]
        rec.need(not raw, 'info-hash-raw', U, bi, 'info-hash bytes are appended without percent-encoding: %s' % raw)
    encs = [bb for bb in mirq.real_calls(U) if (U.blocks[bb]['t'].get('callee') or '') in ENCODERS]
    for bb in encs:
        rec.site(U, bb, 'encoder ' + U.blocks[bb]['t']['callee'])


@TABLE.rule('2', 'K6', 'query table: peer_id <- own id, port <- PORT, left <- total length, uploaded/downloaded/event present; GET create_url(own metainfo)', floor=3)
def r2(cx, rec):
    F = cx.F
    U = url_builder(F)
    T = None
    for f in F.user_fns():
        q = [bb for bb in mirq.real_calls(f) if (f.blocks[bb]['t'].get('callee') or '').endswith('RequestBuilder::query')]
        if q:
            T = (f, q[0])
    if T is None:
        raise AnchorMissing('no reqwest query(..) call')
    f, qb = T
    e = f.expr_call(qb)
    table = {}
    for x in walk(e[2][1]):
        if x[0] == 'agg' and x[1] == 'tuple' and len(x[4]) == 2 and x[4][0][1][0] == 'str':
            table[x[4][0][1][1]] = x[4][1][1]
    rec.site(f, qb, 'query parameters: %s' % {k: show(v)[-60:] for k, v in table.items()})
    want = {
        'peer_id': lambda v: re.search(r'from_utf8\(std::slice::<impl \[T\]>::to_vec\(\(self\.%s as &\[u8\]\)\)\)' % re.escape(client_id_field(F)), show(v)) is not None and 'take' not in show(v),
        'port': lambda v: re.fullmatch(r'std::string::ToString::to_string\(constants::PORT\)', show(v)) is not None,
        'left': lambda v: (lambda s_: re.fullmatch(r'std::string::ToString::to_string\(metainfo::Metainfo::total_length\(self\.metainfo\)\)', s_) is not None)(show(v)),
        'uploaded': lambda v: True,
        'downloaded': lambda v: True,
        'event': lambda v: True,
    }
    for k, pred in want.items():
        rec.need(k in table and pred(table[k]), 'query-param/' + k, f, qb,
                 'query parameter %s is %s' % (k, show(table[k])[:80] if k in table else 'missing'))
    # GET url
    gets = [x for x in walk(e) if x[0] == 'call' and x[1].endswith('Client::get')]
    rec.need(len(gets) == 1, 'no-get', f, qb, 'request is not a GET')
    for g in gets:
        u = mirq.init_of(g[2][1])
        rec.site(f, qb, 'GET %s' % show(u)[:80])
        rec.need(u[0] == 'call' and u[1] == U.path and access_path(u[2][0]) == 'self.metainfo', 'get-url', f, qb,
                 'the request URL is %s, not create_url(own metainfo)' % show(u)[:80])
    # own id stored from the constructor parameter
    for g in F.user_fns():
        for bi, si, x in mirq.agg_sites(g, r'^tracker_client::TrackerClient$'):
            fs = dict(x[4])
            cid = client_id_field(F)
            src = fs.get(cid, ('other', ''))
            idp = [n for n, l, t in C.params_of(g, r'^&?\[u8; (20|PEER_ID_SIZE)\]$')]
            rec.site(g, bi, 'TrackerClient{%s <- %s}' % (cid, access_path(src)))
            rec.need(len(idp) == 1 and access_path(src) == idp[0], 'client-own-id', g, bi, 'own id slot receives %s' % show(src)[:60])
            # and the manager hands its own id to the constructor
            for h, hb in C.callers(F, g.path):
                args = dict(zip([n for n, l, t in C.params_of(g)], h.expr_call(hb)[2]))
                if idp and idp[0] in args:
                    rec.need(access_path(args[idp[0]]) == 'self.' + V.session_own_id(F), 'client-own-id', h, hb,
                             'the tracker client is created with %s, not the session\'s own peer id' % show(args[idp[0]])[:60])
            rec.need(access_path(fs.get('metainfo', ('other', ''))) == 'metainfo', 'client-metainfo', g, bi, 'metainfo slot receives %s' % show(fs.get('metainfo', ('other', '')))[:60])


def is_announce(F, e):
    """e is the torrent's announce URL itself (the field, or an accessor that returns it), not a part of it"""
    for _ in range(8):
        if e[0] == 'cast':
            e = e[1]
        elif e[0] in ('var', 'mvar') and mirq.init_of(e) is not e:
            e = mirq.init_of(e)
        elif e[0] == 'call' and e[4].get('inl') is not None and e[1] in F.fns:
            e = e[4]['inl']
        elif e[0] == 'call' and e[4].get('name') in ('as_str', 'deref', 'as_ref', 'borrow', 'clone', 'to_string', 'to_owned') and e[2]:
            e = e[2][0]
        else:
            break
    return e[0] == 'field' and len(e) > 3 and e[3] == V.MI and e[2] == V.meta_announce(F)


def client_id_field(F):
    return V.field(F, 'tracker_client::TrackerClient', r'^\[u8; PEER_ID_SIZE\]$', 'own peer id of the tracker client')


@TABLE.rule('3', 'K10', 'query awareness: the separator before info_hash= depends on whether the announce URL already has a query', floor=1)
def r3(cx, rec):
    F = cx.F
    U = url_builder(F)
    aware = False
    for sb in U.switches():
        e, ts, o = U.cond(sb)
        x = mirq.init_of(e)
        whole = x[0] == 'call' and bool(x[2]) and is_announce(F, x[2][0])
        if x[0] == 'call' and x[4].get('name') in ('contains', 'find', 'rfind') and not whole and V.mentions_field(x, V.MI, V.meta_announce(F)):
            rec.site(U, sb, 'query test applied to a part of the announce URL: %s' % show(x)[:100])
            rec.violation('query-test-on-substring', U, sb, 'the "?" test looks only at a part of the announce URL (%s): a query containing that delimiter is missed' % show(x[2][0])[:80])
        if x[0] == 'call' and x[4].get('name') in ('contains', 'find', 'rfind') and whole:
            c = [y for y in walk(x) if y[0] == 'const' and y[1] == 63] + [y for y in walk(x) if y[0] == 'str' and '?' in y[1]]
            if c:
                # the two edges choose different separators
                tt, ff = U.bool_edges(sb)
                lits = {}
                for edge, lab in ((tt, 'has-query'), (ff, 'no-query')):
                    reg = U.reach_from(edge, cut_blocks=[sb])
                    other = U.reach_from(ff if edge == tt else tt, cut_blocks=[sb])
                    for bi, si, s in U.assigns():
                        if bi in reg and bi not in other:
                            v = U.expr_rvalue(s['rv'])
                            if v[0] == 'str':
                                lits[lab] = v[1]
                rec.site(U, sb, 'separator chosen by %s: %s' % (show(x)[:70], lits))
                if lits.get('has-query', '').startswith('&') and lits.get('no-query', '').startswith('?'):
                    aware = True
    uses_url = any((U.blocks[bb]['t'].get('callee') or '').startswith('url::Url::') and U.blocks[bb]['t'].get('name') in ('query_pairs_mut', 'set_query', 'parse_with_params')
                   for bb in mirq.real_calls(U))
    if uses_url:
        rec.site(U, None, 'URL assembled through url::Url query API')
    rec.need(aware or uses_url, 'query-unaware', U, None,
             'the separator before "info_hash=" does not depend on whether the announce URL already has a query string: an announce '
             'URL such as http://t/a?key=1 yields ...?key=1?info_hash=..., so the tracker receives no info_hash parameter')


@TABLE.rule('4', 'K5b', 'the announce URL used is the document\'s, byte for byte: the reader of key "announce" does not trim, fold or replace '
            '(shared with C17)', floor=1)
def r4(cx, rec):
    from rules import C17
    C17.finders_unmodified(cx, rec, (['announce'],))


@TABLE.rule('5', 'K6', 'the announced port is the port the client listens on: every TcpListener::bind in the crate binds the same '
            'compile-time constant the query\'s "port" parameter is built from', floor=2)
def r5(cx, rec):
    F = cx.F
    # the announced constant
    ann = None
    for f in F.user_fns():
        for bb in mirq.real_calls(f):
            if (f.blocks[bb]['t'].get('callee') or '').endswith('RequestBuilder::query'):
                for x in walk(f.expr_call(bb)[2][1]):
                    if x[0] == 'agg' and x[1] == 'tuple' and len(x[4]) == 2 and x[4][0][1][0] == 'str' and x[4][0][1][1] == 'port':
                        cs = [const_of(y) for y in walk(x[4][1][1]) if y[0] == 'const' and const_of(y) is not None]
                        if len(cs) == 1:
                            ann = cs[0]
                            rec.site(f, bb, 'announced port: %s = %s' % (ann[1], ann[0]))
    if ann is None:
        raise AnchorMissing('the "port" query parameter is not built from one constant')
    binds = []
    for f in F.user_fns():
        for bb in mirq.real_calls(f):
            if (f.blocks[bb]['t'].get('callee') or '').endswith('TcpListener::bind'):
                binds.append((f, bb))
    if not binds:
        raise AnchorMissing('no TcpListener::bind call: the client does not listen')
    for f, bb in binds:
        a = mirq.strip(f.expr_call(bb)[2][0])
        a = mirq.init_of(a) if a[0] in ('var', 'mvar') else a
        port = None
        if a[0] == 'agg' and a[1] == 'tuple' and len(a[4]) == 2:
            port = mirq.strip(a[4][1][1])
            if port[0] == 'var':
                port = mirq.strip(mirq.init_of(port))
        c = const_of(port) if port is not None and port[0] == 'const' else None
        rec.site(f, bb, 'listens on %s' % (show(port)[:60] if port is not None else show(a)[:60]))
        rec.need(c is not None and c[0] == ann[0], 'listen-port-differs', f, bb,
                 'the listener binds %s, which is not the constant %s (= %s) announced to the tracker: peers that learn the '
                 'address from the tracker connect to a port the client does not listen on' % (show(port)[:60] if port is not None else show(a)[:60], ann[1], ann[0]))
