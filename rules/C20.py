"""C20 -- silent peers are dropped, live ones are kept and kept alive.

Decides, from the built MIR of the current tree: (1) the keep-alive interval constant and the
guard/limit of the silence counter give a close at tick 2..3 (<= 3 x 120 s) and never for a peer
that resets the counter every interval; the counter starts at 0 and is incremented by exactly 1
on the non-error path; (2) the timer is interval_at(now + I, I), its tick is a select! branch of
the peer loop whose arm runs the timeout handler and propagates its error; the handler emits a
KeepAlive on every non-error path; (3) the frame dispatcher resets the counter for every frame
kind except KeepAlive and nothing else writes it; (4) the timeout error reaches KillReq and the
manager's KillReq arm releases the reservation and removes the peer."""
import re
import mirq
from mirq import show, access_path, AnchorMissing
from rulekit import Table
from rules import common as C

TABLE = Table('C20')
NOT_DECIDED = ('wall-clock behaviour of tokio::time and select! fairness; frames skipped as '
               'unknown ids do not count as traffic (stated, not judged).')
ASSUMPTIONS = ['tokio::time::interval_at(start, period) first fires at start and then every period']

CMP = {
    'Eq': lambda a, b: a == b, 'Ne': lambda a, b: a != b, 'Lt': lambda a, b: a < b,
    'Le': lambda a, b: a <= b, 'Gt': lambda a, b: a > b, 'Ge': lambda a, b: a >= b,
}


def timeout_fn(F):
    fs = C.fns_constructing(F, r'^error::Error$', 'KeepAliveTimeout')
    fs = [f for f in fs if not (f.trait or '').endswith('Display')]
    return C.one(fs, 'function constructing Error::KeepAliveTimeout')


def guard_of(F, T):
    """(switch_bb, op, counter_path, limit_value, limit_def, err_on_true)"""
    err_bbs = [bb for bb, _, _ in mirq.agg_sites(T, r'^error::Error$', 'KeepAliveTimeout')]
    for sb in T.switches():
        e, ts, o = T.cond(sb)
        neg = False
        while e[0] == 'unop' and e[1] == 'Not':
            neg = not neg
            e = e[2]
        if e[0] != 'binop' or e[1] not in CMP:
            continue
        a, b, op = e[2], e[3], e[1]
        ca, cb = mirq.const_of(a), mirq.const_of(b)
        if ca and not cb:
            a, b, ca, cb = b, a, cb, ca
            op = {'Lt': 'Gt', 'Gt': 'Lt', 'Le': 'Ge', 'Ge': 'Le'}.get(op, op)
        if not cb or ca:
            continue
        path = access_path(a)
        if not path:
            continue
        tt, ff = T.bool_edges(sb)
        if neg:
            tt, ff = ff, tt
        via_true = T.only_via_edge((sb, tt))
        via_false = T.only_via_edge((sb, ff))
        if all(x in via_true or x == tt for x in err_bbs):
            return sb, op, path, cb[0], cb[1], True
        if all(x in via_false or x == ff for x in err_bbs):
            return sb, op, path, cb[0], cb[1], False
    raise AnchorMissing('no comparison of a counter with a constant guards Error::KeepAliveTimeout in %s' % T.path)


@TABLE.rule('1', 'K11', 'interval constant, limit and guard close a silent peer at tick 2..3 of 120 s; '
            'counter starts at 0 and grows by exactly 1 per non-error tick', floor=4)
def r1(cx, rec):
    F = cx.F
    timer_not_rearmed(cx, rec)
    T = timeout_fn(F)
    sb, op, path, L, Ldef, err_on_true = guard_of(F, T)
    rec.site(T, sb, 'guard %s(%s, %s=%s) error on %s edge' % (op, path, Ldef, L, err_on_true))
    # tick (1-based) at which a silent connection errors: counter is n-1 at tick n
    tick = None
    for n in range(1, 64):
        hit = CMP[op](n - 1, L)
        if hit == err_on_true:
            tick = n
            break
    I = interval_const(F, rec)
    rec.need(I == 120, 'interval-not-120', T, None,
             'keep-alive interval constant is %s s, the property (and BEP3 practice) fixes 120 s' % I)
    rec.need(tick is not None and tick <= 3 and (I or 0) * tick <= 360, 'silent-peer-closed-too-late', T, sb,
             'with guard %s %s %s a silent connection errors at tick %s (x %s s): later than three '
             'intervals of two minutes' % (path, op, L, tick, I))
    rec.need(tick is not None and tick >= 2, 'live-peer-closed', T, sb,
             'guard fires with the counter at 0: a peer that sends a message in every interval '
             'would still be closed')
    # increment by exactly one on the non-error path
    incs = []
    for bi, si, s in T.stores():
        if access_path(T.expr_place(s['lhs'])) != path:
            continue
        e = T.expr_rvalue(s['rv'])
        # AddWithOverflow(...).0 or Add
        while e[0] == 'field':
            e = e[1]
        good = (e[0] == 'binop' and e[1] in ('Add', 'AddWithOverflow', 'AddUnchecked')
                and access_path(e[2]) == path and mirq.const_of(e[3]) and mirq.const_of(e[3])[0] == 1)
        incs.append((bi, good, show(e)))
        rec.site(T, bi, 'counter store: ' + show(e)[:120])
    rec.need(len(incs) == 1 and incs[0][1], 'counter-increment', T, incs[0][0] if incs else None,
             'the silence counter must be incremented by exactly 1 on the non-error path of the '
             'timeout handler; found %s' % [x[2] for x in incs])
    if incs:
        oks = C.ok_exit_blocks(T)
        ok, bad = C.must_pass(T, [incs[0][0]], oks)
        rec.need(ok, 'counter-increment-skipped', T, incs[0][0],
                 'an Ok path through the timeout handler does not count the tick')
    # initial value 0 wherever the owning struct is built
    field = path.split('.')[-1]
    inits = 0
    for f in F.user_fns():
        for bi, si, e in mirq.agg_sites(f, r'.*'):
            for n, x in e[4]:
                if n == field and e[2].startswith('peer_handler::'):
                    inits += 1
                    c = mirq.const_of(x)
                    rec.site(f, bi, 'initialises %s.%s = %s' % (e[2], field, show(x)))
                    rec.need(c is not None and c[0] == 0, 'counter-init/' + F.owner_fn(f).path, f, bi,
                             'the silence counter does not start at 0')
    rec.need(inits >= 1, 'counter-init-missing', T, None, 'no initialisation of the counter found')


def interval_const(F, rec):
    """value of the constant that feeds the timer of the select! arm which runs the timeout fn"""
    T = timeout_fn(F)
    tpath = F.owner_fn(T).path
    loop, arm, sel = keepalive_arm(F)
    fut = arm['future']
    if not (fut and fut[0] == 'call' and fut[1].endswith('Interval::tick')):
        raise AnchorMissing('keep-alive arm is not fed by Interval::tick')
    timer = mirq.init_of(fut[2][0])
    if timer[0] != 'call' or timer[1] not in F.fns:
        raise AnchorMissing('timer of the keep-alive arm is not built by a crate function')
    G = F.body(timer[1])
    ia = [bb for bb in mirq.real_calls(G) if (G.blocks[bb]['t'].get('callee') or '').endswith('time::interval_at')]
    if len(ia) != 1:
        raise AnchorMissing('timer builder does not call interval_at exactly once')
    e = G.expr_call(ia[0])
    start, period = e[2][0], e[2][1]
    rec.site(G, ia[0], 'interval_at(%s, %s)' % (show(start)[:120], show(period)[:80]))

    def secs(x):
        # Duration::from_secs(C)
        if x[0] == 'call' and x[1].endswith('Duration::from_secs'):
            return mirq.const_of(x[2][0])
        return None
    p = secs(period)
    s_ok = None
    if start[0] == 'call' and start[1].endswith('Add::add'):
        a, b = start[2]
        if a[0] == 'call' and a[1].endswith('Instant::now'):
            s_ok = secs(b)
    rec.need(p is not None, 'timer-period', G, ia[0], 'timer period is not Duration::from_secs(<const>)')
    rec.need(s_ok is not None and p is not None and s_ok[0] == p[0], 'timer-start', G, ia[0],
             'timer must first fire one interval after now (interval_at(Instant::now() + I, I)); '
             'start is %s' % show(start)[:160])
    return p[0] if p else None


def keepalive_arm(F):
    T = timeout_fn(F)
    tpath = F.owner_fn(T).path
    for f, bb in C.callers(F, tpath):
        for sel in mirq.select_info(f):
            for k, arm in sel['arms'].items():
                if bb in arm['region'] or bb == arm['target']:
                    return f, arm, sel
    raise AnchorMissing('the timeout handler is not called from a select! arm')


def timer_not_rearmed(cx, rec):
    """the keep-alive interval is created once and only ticks: nothing resets / re-creates it while the loop runs (a reset on
    every received frame would let a peer that only sends keep-alives, or anything within the period, suppress every tick)"""
    F = cx.F
    n = 0
    for f in F.user_fns():
        if not f.path.startswith('peer_handler::'):
            continue
        for bb in mirq.real_calls(f):
            cal = f.blocks[bb]['t'].get('callee') or ''
            if re.search(r'tokio::time::Interval::reset', cal):
                n += 1
                rec.violation('timer-rearmed/' + F.owner_fn(f).path, f, bb,
                              'an interval timer of the connection task is reset (%s): ticks can be postponed indefinitely by incoming '
                              'traffic, so the silence counter never advances' % cal.split('::')[-1])
    rec.site('peer_handler', None, 'interval resets in the connection task: %d' % n)


@TABLE.rule('2', 'K1', 'timer tick is a select! branch of the peer loop; its arm runs the timeout handler, '
            'propagates its error; the handler emits KeepAlive on every non-error path', floor=3)
def r2(cx, rec):
    F = cx.F
    T = timeout_fn(F)
    tpath = F.owner_fn(T).path
    loop, arm, sel = keepalive_arm(F)
    rec.site(loop, arm['target'], 'select arm %s fed by %s' % (arm['variant'], show(arm['future'])[:120]))
    rec.need(arm['refutable'] is None, 'tick-pattern-refutable', loop, arm['target'],
             'the tick branch binds with a refutable pattern')
    # the select must sit in a loop with the arm flowing back to it
    rec.need(arm['switch'] in loop.reach_from(arm['target']), 'keepalive-arm-not-looping', loop, arm['target'],
             'after a successful tick the loop does not return to the select')
    for bb in C.calls_to_fn(F, loop, tpath):
        ok, why = C.error_propagates(loop, bb)
        rec.site(loop, bb, 'call of the timeout handler; error propagation: %s' % (ok or why))
        rec.need(ok, 'timeout-error-swallowed', loop, bb,
                 'the error of the timeout handler does not end the peer loop: ' + why)
        oe = loop.outcome_edges(bb)
        for sb, tgt in oe.get('err', []):
            rec.need(arm['switch'] not in loop.reach_from(tgt), 'timeout-error-loops', loop, bb,
                     'after KeepAliveTimeout the loop continues')
    # KeepAlive emission on every Ok path of T
    sends = [bb for bb in mirq.real_calls(T)
             if re.search(r'send_msg', T.blocks[bb]['t'].get('callee') or '') and
             'KeepAlive' in (T.blocks[bb]['t'].get('callee_full') or '')]
    sends += [bb for bb in mirq.real_calls(T)
              if re.search(r'send_frame', T.blocks[bb]['t'].get('callee') or '') and
              'KeepAlive' in show(T.expr_call(bb))]
    for bb in sends:
        rec.site(T, bb, 'emits KeepAlive')
    ok, bad = C.must_pass(T, sends, C.ok_exit_blocks(T))
    rec.need(bool(sends) and ok, 'keepalive-not-sent', T, None,
             'an Ok path through the timeout handler sends no KeepAlive message')
    for bb in sends:
        ok, why = C.error_propagates(T, bb)
        rec.need(ok, 'keepalive-send-error-ignored', T, bb, 'send error ignored: ' + why)


@TABLE.rule('3', 'K7', 'frame dispatcher resets the counter for every frame kind except KeepAlive; '
            'nothing else writes the counter', floor=12)
def r3(cx, rec):
    F = cx.F
    T = timeout_fn(F)
    _, _, path, _, _, _ = guard_of(F, T)
    D, sbs = C.frame_dispatch(F)
    # K2: who writes the counter
    writers = []
    for f in F.user_fns():
        for bi, si, s in f.stores():
            if access_path(f.expr_place(s['lhs'])) == path:
                writers.append((f, bi, s))
    allowed = {T.path, D.path}
    for f, bi, s in writers:
        rec.site(f, bi, 'store to %s' % path)
        rec.need(f.path in allowed, 'counter-writer/' + F.owner_fn(f).path, f, bi,
                 'the silence counter is written outside the timeout handler and the frame dispatcher')
    stores = [(bi, s) for f, bi, s in writers if f.path == D.path]
    rec.need(len(stores) >= 1, 'reset-store-count', D, None, 'the frame dispatcher never writes the silence counter')
    if not stores:
        return
    store_bbs = {bi for bi, s in stores}
    # per frame kind: effect on the counter of every feasible path that handles such a frame successfully
    frame_keys = {}
    for sb in D.switches():
        e = D.cond(sb)[0]
        if e[0] == 'discr' and re.search(r'^&?(mut )?frame::Frame$', e[2]):
            frame_keys[show(e)] = sb
    if not frame_keys:
        raise AnchorMissing('the dispatcher never inspects the frame kind')
    oks = set(C.ok_exit_blocks(D))
    paths = [p for p in mirq.enumerate_paths(D, 0, oks, limit=200000) if p[-1] in oks]
    effects = {}
    where = {}
    for p in paths:
        pf = mirq.path_facts(D, p)
        if pf is None:
            continue
        kinds = {v for k, v in pf['atoms'].items() if k in frame_keys}
        if len(kinds) != 1:
            # the frame kind is not established on this path (e.g. no frame at all): not a handled frame
            if not kinds and not any(b in store_bbs for b in p):
                continue
            kinds = kinds or {'?'}
        eff = 'same'
        at = None
        for pi, bb in enumerate(p):
            for si, st in enumerate(D.blocks[bb]['s']):
                if st['k'] == 'assign' and st['lhs'].get('p') and access_path(D.expr_place(st['lhs'])) == path:
                    v = mirq._expr_with(D, p, ('rv', st['rv']), (pi, si), 0)
                    c = mirq.const_of(v)
                    at = bb
                    if c and c[0] == 0:
                        eff = 'zero'
                    elif access_path(v) == path:
                        pass
                    else:
                        eff = 'other:' + show(v)[:60]
        for kd in kinds:
            effects.setdefault(kd, set()).add(eff)
            where.setdefault(kd, at if at is not None else p[-1])
    frame = F.adt('frame::Frame')
    rec.need('?' not in effects, 'reset-without-kind', D, where.get('?'),
             'the counter is written on a path where the kind of the received frame is not established')
    for v in frame['variants']:
        hit = sorted(effects.get(v['name'], []))
        tgt = where.get(v['name'])
        rec.site(D, tgt, 'Frame::%s -> counter := %s on every successfully handled path' % (v['name'], hit))
        if not hit:
            continue
        if v['name'] == 'KeepAlive':
            rec.need(hit == ['same'], 'reset-on-keepalive', D, tgt,
                     'a KeepAlive frame changes the silence counter (%s): a peer sending only '
                     'keep-alives would never be dropped' % hit)
        else:
            rec.need(hit == ['zero'], 'no-reset-on/' + v['name'], D, tgt,
                     'frame kind %s can be handled successfully without the silence counter being reset (%s): a live peer is '
                     'closed for inactivity' % (v['name'], hit))
    rec.need('KeepAlive' in effects and len(effects) >= len(frame['variants']) - 1, 'frame-kinds-unhandled', D, None,
             'successfully handled frame kinds: %s' % sorted(effects))


@TABLE.rule('4', 'K3+K1', 'KeepAliveTimeout reaches KillReq; the manager\'s KillReq arm releases the '
            'reservation and removes the peer', floor=3)
def r4(cx, rec):
    C.kill_chain(cx.F, rec, '')
