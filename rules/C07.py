"""C07 -- every peer-wire message round-trips through its BEP3 byte layout.

Extracts, from the MIR of the straight-line serialisers (`Serializer::data`), of the readers
(`X::from`, `X::check`), of the constructors and of the two dispatchers (Frame::parse,
Connection::send_frame), the writer layout, the reader layout, ids and lengths of the eleven
messages, and checks that they agree with each other and with a frozen BEP3 reference table:
order, width, big-endianness, offsets, field identity, length word, ids, `check` consuming exactly
the frame, dispatch arms using check/from/variant of the same message, and the bitfield bit order
(MSB first) with the ceil(n/8) byte count in both directions."""
import re
import mirq
from mirq import show, access_path, AnchorMissing, const_of
from rulekit import Table
from rules import common as C
from rules import vocab as V

TABLE = Table('C07')
NOT_DECIDED = ('nothing about run-time values beyond what the tables imply; Vec/to_be_bytes/'
               'from_be_bytes semantics are trusted.')

# BEP3 reference: message -> (id or None, [layout items])
# items: ('len',) length word (be32) ; ('id',) ; ('be32', role) ; ('bytes', role)
REF = {
    'KeepAlive': (None, 0, []),
    'Choke': (0, 1, []),
    'Unchoke': (1, 1, []),
    'Interested': (2, 1, []),
    'NotInterested': (3, 1, []),
    'Have': (4, 5, [('be32', 'index')]),
    'Bitfield': (5, None, [('bytes', 'payload')]),
    'Request': (6, 13, [('be32', 'index'), ('be32', 'begin'), ('be32', 'length')]),
    'Piece': (7, None, [('be32', 'index'), ('be32', 'begin'), ('bytes', 'payload')]),
    'Cancel': (8, 13, [('be32', 'index'), ('be32', 'begin'), ('be32', 'length')]),
}
PROTOCOL = b'BitTorrent protocol'


def role_of(field):
    f = field.lower()
    if 'index' in f:
        return 'index'
    if 'begin' in f or 'offset' in f:
        return 'begin'
    if 'length' in f or f.endswith('len'):
        return 'length'
    if 'hash' in f:
        return 'info_hash'
    if 'peer' in f and 'id' in f:
        return 'peer_id'
    if 'block' in f or 'data' in f or 'payload' in f or 'bytes' in f or 'bit' in f or 'map' in f or 'buf' in f:
        return 'payload'
    return None


def fold(e):
    """integer value of a constant expression (consts, casts, + - * and the .0 of checked ops)"""
    k = e[0]
    if k == 'const':
        return e[1]
    if k == 'cast':
        return fold(e[1])
    if k == 'field' and e[2] == '0' and e[1][0] == 'binop' and e[1][1].endswith('WithOverflow'):
        return fold(e[1])
    if k == 'binop':
        a, b = fold(e[2]), fold(e[3])
        if a is None or b is None:
            return None
        op = e[1].replace('WithOverflow', '').replace('Unchecked', '')
        if op == 'Add':
            return a + b
        if op == 'Sub':
            return a - b
        if op == 'Mul':
            return a * b
        return None
    if k == 'call' and e[4].get('name') == 'len' and e[2] and strip_cast(e[2][0])[0] == 'bytes':
        return len(strip_cast(e[2][0])[1])
    return None


def strip_cast(e):
    while e[0] == 'cast':
        e = e[1]
    return e


def lin(e):
    """(const, var) for const + len(path) forms; var is an access path or None"""
    v = fold(e)
    if v is not None:
        return v, None
    k = e[0]
    if k == 'cast':
        return lin(e[1])
    if k == 'field' and e[2] == '0' and e[1][0] == 'binop':
        return lin(e[1])
    if k == 'field' and e[2] == '0' and e[1][0] == 'variant' and e[1][2] in ('Ok', 'Some'):
        # payload of an explicit `match x { Ok(v) => v, Err(e) => return Err(e) }`: the same value `x?` yields
        return lin(('try', e[1][1]))
    if k == 'binop' and e[1].replace('WithOverflow', '') == 'Add':
        (ca, va), (cb, vb) = lin(e[2]), lin(e[3])
        if ca is None or cb is None or (va and vb):
            return None, None
        return ca + cb, va or vb
    if k == 'binop' and e[1].replace('WithOverflow', '') == 'Sub':
        (ca, va), (cb, vb) = lin(e[2]), lin(e[3])
        if ca is None or cb is None or vb:
            return None, None
        return ca - cb, va
    if k == 'call' and e[4].get('name') == 'len' and e[2]:
        p = access_path(e[2][0])
        return (0, 'len(%s)' % p) if p else (None, None)
    p = access_path(e)
    if p:
        return 0, p
    if k in ('try', 'await', 'call'):
        return 0, 'expr:' + show(e)
    return None, None


def messages(F):
    fr = F.adt('frame::Frame')
    out = []
    for v in fr['variants']:
        ty = v['fields'][0]['ty']
        out.append((v['name'], ty))
    return out


MSG_API = {
    # role -> (parameter type patterns in order, return type pattern): what a message type's inherent function looks like
    'check': (None, r'^std::result::Result<usize, error::Error>$'),
    'from': ([r'^&std::io::Cursor<&\[u8\]>$'], r'^messages::'),
    'validate': (None, r'^std::result::Result<\(\), error::Error>$'),
    'from_vec': ([r'^&(std::vec::Vec<bool>|\[bool\])$'], r'^messages::'),
    'to_vec': (None, r'^std::result::Result<std::vec::Vec<bool>, error::Error>$'),
}


def impl_method(F, ty, name, trait=None):
    for f in F.user_fns():
        if f.self_ty == ty and f.name == name and f.kind == 'AssocFn':
            if trait is None and not f.trait:
                return f
            if trait and (f.trait or '').endswith(trait):
                return f
    if trait is None and name in MSG_API:
        # renamed: the inherent function of this type with the role's signature
        ptys, rty = MSG_API[name]
        cands = []
        for f in F.user_fns():
            if f.self_ty == ty and f.kind == 'AssocFn' and not f.trait and re.search(rty, f.locals[0]['ty']):
                ts = [t for n, l, t in C.params_of(f)]
                if ptys is None or (len(ts) == len(ptys) and all(re.search(p, t) for p, t in zip(ptys, ts))):
                    cands.append(f)
        if len(cands) == 1:
            return cands[0]
    if trait:
        # renamed trait method: the only method of that trait's impl for this type that returns the wire bytes
        cands = [f for f in F.user_fns() if f.self_ty == ty and f.kind == 'AssocFn' and (f.trait or '').endswith(trait)
                 and re.search(r'^std::vec::Vec<u8>$', f.locals[0]['ty'])]
        if len(cands) == 1:
            return cands[0]
    raise AnchorMissing('%s::%s not found' % (ty, name))


def writer_layout(F, f, rec):
    """ordered emissions of a Serializer::data body"""
    if f.switches():
        raise AnchorMissing('%s is not straight-line' % f.path)
    items = []
    for bb in mirq.real_calls(f):
        e = f.expr_call(bb)
        name = e[4].get('name')
        if name in ('extend_from_slice', 'push', 'to_vec', 'extend', 'append', 'insert', 'push_str'):
            arg = strip_cast(e[2][-1] if name != 'to_vec' else e[2][0])
            if name == 'push':
                items.append(('u8', arg, bb))
            elif arg[0] == 'call' and re.search(r'to_(be|le|ne)_bytes$', arg[1]):
                m = re.search(r'impl (u\d+|i\d+|usize)>::to_(be|le|ne)_bytes', arg[1])
                width = {'u8': 1, 'u16': 2, 'u32': 4, 'u64': 8, 'usize': 8}.get(m.group(1) if m else '', None)
                items.append(('int', m.group(2) if m else '?', width, arg[2][0], bb))
            elif arg[0] == 'bytes':
                items.append(('lit', bytes(arg[1]), bb))
            elif arg[0] == 'agg' and arg[1] == 'repeat':
                items.append(('zeros', fold(arg[4][1][1]), fold(arg[4][0][1]), bb))
            elif name in ('extend', 'append', 'insert', 'push_str'):
                items.append(('unknown', show(e)[:80], bb))
            else:
                p = access_path(arg)
                items.append(('bytes', p, bb))
    return items


def reader_layout(F, f):
    """field -> ('be32', offset, width) / ('bytes', offset, 'cursor') from a `from(crs)` body (private helpers of the same
    type, e.g. a `read_u32(crs, start)`, spliced in)"""
    return reader_layout2(F, f)[0]


class Fills(dict):
    def __init__(self):
        dict.__init__(self)
        self.names = {}
        self.labels = {}


def _lkey(x):
    """key of a local array: its MIR local when known (two spliced copies of a helper have locals of the same name)"""
    if x[0] in ('var', 'mvar') and isinstance(x[-1], int):
        return 'L%d' % x[-1]
    return x[1] if x[0] in ('var', 'mvar') else show(x)


def reader_layout2(F, f):
    """(fills, body): fills as in reader_layout; body = the function with its same-type private helpers spliced in"""
    f = mirq.inline_fn(F, f, lambda g, f=f: g.self_ty == f.self_ty and not g.trait, depth=2)
    fills = Fills()   # array local -> (start, end, to_cursor, call bb)
    for bb in mirq.real_calls(f):
        e = f.expr_call(bb)
        name = e[4].get('name')
        if name in ('copy_from_slice', 'extend_from_slice', 'clone_from_slice'):
            dst = strip_cast(e[2][0])
            src = strip_cast(e[2][1])
            if src[0] == 'call' and src[4].get('name') == 'index' and src[2][1][0] == 'agg':
                rng = dict(src[2][1][4])
                base = src[2][0]
                if not (base[0] == 'call' and base[4].get('name') == 'get_ref'):
                    continue
                start = fold(rng.get('start', ('const', 0, None, 'usize')))
                end_e = rng.get('end')
                end = fold(end_e) if end_e else None
                to_cursor = False
                if end is None and end_e is not None:
                    x = strip_cast(end_e)
                    if x[0] == 'call' and x[4].get('name') == 'position':
                        to_cursor = True
                fills[_lkey(dst)] = (start, end, to_cursor, bb)
                fills.names[_lkey(dst)] = dst[1] if dst[0] in ('var', 'mvar') else show(dst)
    # stable labels: the source name, numbered in layout order when a spliced helper's local is filled more than once
    seen = {}
    for k in sorted(fills, key=lambda k: (fills[k][0] is None, fills[k][0] or 0)):
        n = fills.names[k]
        seen[n] = seen.get(n, 0) + 1
        fills.labels[k] = n if seen[n] == 1 else '%s#%d' % (n, seen[n])
    return fills, f


@TABLE.rule('1', 'K6', 'ids: MsgId discriminants = X::ID constants = BEP3 ids; Handshake id is byte 4 of a handshake', floor=10)
def r_ids(cx, rec):
    F = cx.F
    mid = F.adt('frame::MsgId')
    byname = {v['name']: int(v['discr']) for v in mid['variants']}
    for name, ty in messages(F):
        if name == 'KeepAlive':
            continue
        vname = name + 'Id'
        rec.need(vname in byname, 'msgid-missing/' + name, 'frame::MsgId', None, 'no MsgId variant for ' + name)
        if vname not in byname:
            continue
        if name == 'Handshake':
            want = PROTOCOL[3]
        else:
            want = REF[name][0]
            cid = F.consts.get(ty + '::ID')
            rec.need(cid is not None and cid.get('val') == want, 'id-const/' + name, ty + '::ID', None,
                     '%s::ID is %s, BEP3 says %s' % (name, cid.get('val') if cid else None, want))
        rec.site('frame::MsgId::' + vname, None, 'discriminant %s (BEP3 %s)' % (byname[vname], want))
        rec.need(byname[vname] == want, 'msgid/' + name, 'frame::MsgId::' + vname, None,
                 'MsgId::%s = %s but BEP3 id of %s is %s' % (vname, byname[vname], name, want))


@TABLE.rule('2', 'K6', 'writer layout of every message equals the BEP3 reference (order, width, big-endian, length word, id)', floor=11)
def r_writer(cx, rec):
    F = cx.F
    for name, ty in messages(F):
        f = impl_method(F, ty, 'data', 'Serializer')
        items = writer_layout(F, f, rec)
        desc = []
        for it in items:
            if it[0] == 'int':
                desc.append('%s%d(%s)' % (it[1], (it[2] or 0) * 8, show(it[3])[:60]))
            elif it[0] == 'u8':
                desc.append('u8(%s)' % show(it[1])[:40])
            else:
                desc.append('%s(%s)' % (it[0], str(it[1])[:40]))
        rec.site(f, None, '%s: %s' % (name, ' '.join(desc)))
        key = 'writer/' + name
        for it in items:
            if it[0] == 'int':
                rec.need(it[1] == 'be', key + '/endianness', f, it[4], '%s serialises an integer with to_%s_bytes; BEP3 is big-endian' % (name, it[1]))
                rec.need(it[2] == 4, key + '/width', f, it[4], '%s serialises a %s-byte integer; BEP3 fields are 4 bytes' % (name, it[2]))
            if it[0] == 'unknown':
                rec.violation(key + '/unrecognised-emission', f, it[-1], 'emission idiom not recognised: ' + it[1])
        if name == 'Handshake':
            ok = (len(items) == 5 and items[0][0] == 'u8' and fold(items[0][1]) == 19
                  and items[1][0] == 'lit' and items[1][1] == PROTOCOL
                  and items[2][0] == 'zeros' and items[2][1] == 8 and items[2][2] == 0
                  and items[3][0] == 'bytes' and role_of((items[3][1] or '').split('.')[-1]) == 'info_hash'
                  and items[4][0] == 'bytes' and role_of((items[4][1] or '').split('.')[-1]) == 'peer_id')
            rec.need(ok, key + '/layout', f, None,
                     'Handshake must be 19,"BitTorrent protocol",8 zero bytes,info_hash,peer_id; found ' + ' '.join(desc))
            continue
        rid, rlen, rfields = REF[name]
        want = ['len'] + (['id'] if rid is not None else []) + ['%s:%s' % x for x in rfields]
        got = []
        for i, it in enumerate(items):
            if i == 0 and it[0] == 'int':
                c, v = lin(it[3])
                payload = [x for x in rfields if x[0] == 'bytes']
                fixed = 1 + 4 * len([x for x in rfields if x[0] == 'be32']) if rid is not None else 0
                if payload:
                    okl = (c == fixed and v is not None and v.startswith('len(') and role_of(v[4:-1].split('.')[-1]) == 'payload')
                else:
                    okl = (c == rlen and v is None)
                rec.need(okl, key + '/length-word', f, it[4],
                         '%s: length word is %s%s, BEP3 needs %s' % (name, c, (' + ' + v) if v else '', (str(fixed) + ' + payload length') if payload else rlen))
                got.append('len')
            elif it[0] == 'u8' and rid is not None and i == 1:
                v = fold(it[1])
                rec.need(v == rid, key + '/id-byte', f, it[2], '%s: id byte is %s, BEP3 id is %s' % (name, v, rid))
                got.append('id')
            elif it[0] == 'int':
                p = access_path(it[3]) or ''
                got.append('be32:%s' % role_of(p.split('.')[-1]))
            elif it[0] == 'bytes':
                got.append('bytes:%s' % role_of((it[1] or '').split('.')[-1]))
            else:
                got.append(it[0])
        rec.need(got == want, key + '/layout', f, None, '%s writes %s, BEP3 layout is %s' % (name, got, want))


@TABLE.rule('3', 'K6', 'reader layout (from) agrees with the writer layout and BEP3 offsets; fields big-endian', floor=6)
def r_reader(cx, rec):
    F = cx.F
    for name, ty in messages(F):
        if name == 'Handshake':
            rfields = [('bytes20', 'info_hash', 1 + 19 + 8), ('bytes20', 'peer_id', 1 + 19 + 8 + 20)]
        else:
            rid, rlen, rf = REF[name]
            if not rf:
                continue
            off = 5
            rfields = []
            for kind, role in rf:
                rfields.append((kind, role, off))
                off += 4
        f = impl_method(F, ty, 'from')
        fills, f = reader_layout2(F, f)
        # the returned aggregate
        aggs = [e for bi, si, e in mirq.agg_sites(f, '^' + re.escape(ty) + '$')]
        if len(aggs) != 1:
            raise AnchorMissing('%s::from builds %d aggregates' % (name, len(aggs)))
        fields = dict(aggs[0][4])
        seen_roles = {}
        for fname, fe in fields.items():
            role = role_of(fname)
            if role is None:
                raise AnchorMissing('%s.%s: cannot map field to a BEP3 role' % (name, fname))
            x = strip_cast(fe)
            if x[0] == 'call' and re.search(r'from_(be|le|ne)_bytes$', x[1]):
                en = re.search(r'from_(be|le|ne)_bytes$', x[1]).group(1)
                rec.need(en == 'be', 'reader/%s/%s/endianness' % (name, role), f, None,
                         '%s.%s is decoded with from_%s_bytes' % (name, fname, en))
                src = x[2][0]
                key = _lkey(src)
                kind = 'be32'
            else:
                key = _lkey(x)
                kind = 'bytes'
            fill = fills.get(key)
            if fill is None:
                rec.violation('reader/%s/%s/source' % (name, role), f, None,
                              '%s.%s is not filled from the received bytes (%s)' % (name, fname, show(fe)[:80]))
                continue
            seen_roles[role] = (kind, fill)
            rec.site(f, fill[3], '%s.%s (%s) <- bytes[%s..%s]' % (name, fname, role, fill[0], 'cursor' if fill[2] else fill[1]))
        for kind, role, off in rfields:
            got = seen_roles.get(role)
            if got is None:
                rec.violation('reader/%s/%s/missing' % (name, role), f, None, '%s::from does not decode the %s field' % (name, role))
                continue
            gk, (s, e, to_cur, bb) = got
            if kind == 'be32':
                rec.need(gk == 'be32' and s == off and e == off + 4, 'reader/%s/%s/offset' % (name, role), f, bb,
                         '%s: %s is read from bytes[%s..%s], BEP3 places it at [%s..%s]' % (name, role, s, e, off, off + 4))
            elif kind == 'bytes20':
                rec.need(s == off and e == off + 20, 'reader/%s/%s/offset' % (name, role), f, bb,
                         '%s: %s is read from bytes[%s..%s], expected [%s..%s]' % (name, role, s, e, off, off + 20))
            else:
                rec.need(s == off and to_cur, 'reader/%s/%s/offset' % (name, role), f, bb,
                         '%s: payload is read from bytes[%s..%s], expected [%s..cursor]' % (name, s, 'cursor' if to_cur else e, off))


@TABLE.rule('4', 'K6', 'check() consumes exactly the frame: LEN_SIZE + LEN (fixed) or LEN_SIZE + length (variable); '
            'LEN constants equal BEP3 lengths', floor=10)
def r_check(cx, rec):
    F = cx.F
    for name, ty in messages(F):
        if name == 'KeepAlive':
            c = F.consts.get(ty + '::FULL_SIZE')
            rec.site(ty + '::FULL_SIZE', None, 'KeepAlive consumes %s bytes' % (c or {}).get('val'))
            rec.need(c is not None and c.get('val') == 4, 'check/KeepAlive/size', ty, None, 'KeepAlive must consume 4 bytes')
            continue
        f = impl_method(F, ty, 'check')
        oks = [e for bi, si, e in mirq.agg_sites(f, r'^std::result::Result$', 'Ok')]
        if not oks:
            raise AnchorMissing('%s::check never returns Ok' % name)
        for e in oks:
            c, v = lin(e[4][0][1])
            rec.site(f, None, '%s::check -> Ok(%s%s)' % (name, c, (' + ' + v) if v else ''))
            if name == 'Handshake':
                rec.need(c == 68 and v is None, 'check/Handshake/size', f, None, 'Handshake::check must return 68, returns %s %s' % (c, v))
            elif REF[name][1] is not None:
                rec.need(c == 4 + REF[name][1] and v is None, 'check/%s/size' % name, f, None,
                         '%s::check returns %s%s, the frame is %d bytes' % (name, c, (' + ' + v) if v else '', 4 + REF[name][1]))
            else:
                # variable: LEN_SIZE + length where `length` is the parameter compared with available data
                rec.need(c == 4 and v is not None and not v.startswith('len('), 'check/%s/size' % name, f, None,
                         '%s::check returns %s%s, expected 4 + length' % (name, c, (' + ' + v) if v else ''))
        # the guard is exactly `available >= returned size` (not > or <=): a complete message is consumed at once
        from rules import C06
        if C06.avail_params(F, f) or any(t == 'usize' for n, l, t in C.params_of(f)[1:]):
            for bi, si, oe in mirq.agg_sites(f, r'^std::result::Result$', 'Ok'):
                g = C06.avail_guard(F, f, bi, oe[4][0][1])
                rec.need(g, 'check/%s/guard' % name, f, bi,
                         '%s::check does not return Ok exactly when `available_data >= size`: a complete %s already buffered is not '
                         'consumed (or an incomplete one is)' % (name, name))
        if name != 'Handshake' and REF[name][1] is not None:
            lc = F.consts.get(ty + '::LEN')
            rec.need(lc is not None and lc.get('val') == REF[name][1], 'len-const/' + name, ty + '::LEN', None,
                     '%s::LEN is %s, BEP3 length is %s' % (name, (lc or {}).get('val'), REF[name][1]))


@TABLE.rule('5', 'K6', 'dispatch siblings: Frame::parse arm of MsgId::XId uses X::check, X::from and builds Frame::X; '
            'send_frame serialises the payload of the matched variant', floor=20)
def r_dispatch(cx, rec):
    F = cx.F
    parse = None
    for f, sb in C.fns_switching_on(F, r'Option<frame::MsgId>', min_arms=2):
        parse = (f, sb)
    if parse is None:
        # from_u8(..) compared through a match on the MsgId enum
        cands = C.fns_switching_on(F, r'frame::MsgId', min_arms=5)
        if not cands:
            raise AnchorMissing('no dispatch over frame::MsgId')
        parse = cands[-1]
    f = parse[0]
    # find the switch over MsgId variants (possibly nested under Some)
    disp = [sb for sb in f.switches() if f.cond(sb)[0][0] == 'discr' and 'frame::MsgId' in f.cond(sb)[0][2]
            and len(f.cond(sb)[1]) >= 5]
    if not disp:
        raise AnchorMissing('no switch over MsgId variants in %s' % f.path)
    sb = disp[-1]
    e, ts, o = f.cond(sb)
    mid = F.adt('frame::MsgId')
    names = {v['vi']: v['name'] for v in mid['variants']}
    dnames = {int(v['discr']): v['name'] for v in mid['variants']}
    seen = set()
    for val, tgt in ts.items():
        vname = dnames.get(val) or names.get(val)
        if vname is None:
            continue
        msg = vname[:-2]
        seen.add(msg)
        region = f.only_via_edge((sb, tgt)) | {tgt}
        used = set()
        for bb in mirq.real_calls(f):
            if bb in region:
                c = f.blocks[bb]['t'].get('callee') or ''
                m = re.match(r'messages::\w+::(\w+)::(check|from)$', c)
                if m:
                    used.add((m.group(1), m.group(2)))
        built = {x[3] for bb in region for (bi, si, x) in mirq.agg_sites(f, r'^frame::Frame$') if bi == bb}
        rec.site(f, tgt, 'MsgId::%s arm uses %s builds %s' % (vname, sorted(used), sorted(built)))
        for (m, what) in used:
            rec.need(m == msg, 'dispatch/%s/%s' % (msg, what), f, tgt, 'arm for %s calls %s::%s' % (vname, m, what))
        rec.need((msg, 'check') in used, 'dispatch/%s/no-check' % msg, f, tgt, 'arm for %s does not call %s::check' % (vname, msg))
        rec.need(built == {msg}, 'dispatch/%s/variant' % msg, f, tgt, 'arm for %s builds Frame::%s' % (vname, sorted(built)))
        # cursor is positioned with the value returned by check
        sp = [bb for bb in mirq.real_calls(f) if bb in region and (f.blocks[bb]['t'].get('callee') or '').endswith('Cursor::<T>::set_position')]
        okpos = False
        for bb in sp:
            ex = f.expr_call(bb)
            if any(x[0] == 'call' and x[1].endswith('::%s::check' % msg) for x in mirq.walk(ex[2][1])):
                okpos = True
        rec.need(okpos, 'dispatch/%s/position' % msg, f, tgt, 'arm for %s does not advance the cursor by %s::check\'s result' % (vname, msg))
    want = {n for n, _ in messages(F)} - {'KeepAlive'}
    rec.need(seen == want, 'dispatch/coverage', f, sb, 'dispatch covers %s, messages are %s' % (sorted(seen), sorted(want)))
    # send_frame
    sf = None
    for g, sbb in C.fns_switching_on(F, r'^&?(mut )?frame::Frame$', min_arms=8):
        calls = [tgt for _, tgt in C.local_calls(F, g)]
        if any('send_msg' in c for c in calls):
            sf = (g, sbb)
    if sf is None:
        raise AnchorMissing('no serialising dispatcher over Frame (send_frame)')
    g, sbb = sf
    ve = g.variant_edges(sbb)
    for vname, tgt in ve.items():
        if vname == '_':
            continue
        region = g.only_via_edge((sbb, tgt)) | {tgt}
        tys = set()
        for bb in mirq.real_calls(g):
            if bb in region and 'send_msg' in (g.blocks[bb]['t'].get('callee') or ''):
                ga = g.blocks[bb]['t'].get('gargs') or []
                tys.add(ga[0].split('::')[-1] if ga else '?')
                ex = g.expr_call(bb)
                ap = access_path(ex[2][1]) or ''
                rec.need(('<%s>' % vname) in ap, 'send_frame/%s/payload' % vname, g, bb,
                         'send_frame arm %s serialises %s' % (vname, ap))
        rec.site(g, tgt, 'Frame::%s -> send_msg::<%s>' % (vname, sorted(tys)))
        rec.need(tys == {vname}, 'send_frame/' + vname, g, tgt, 'send_frame arm %s sends %s' % (vname, sorted(tys)))


@TABLE.rule('6', 'K6', 'constructors store parameter i in field i (index, begin, length/payload order)', floor=4)
def r_new(cx, rec):
    F = cx.F
    for name, ty in messages(F):
        if name != 'Handshake' and not REF[name][2]:
            continue
        if name == 'Bitfield':
            continue
        f = impl_method(F, ty, 'new')
        aggs = [e for bi, si, e in mirq.agg_sites(f, '^' + re.escape(ty) + '$')]
        if len(aggs) != 1:
            raise AnchorMissing('%s::new builds %d aggregates' % (name, len(aggs)))
        params = [v['n'] for v in f.raw['vars'] if 'arg' in v]
        for i, (fname, fe) in enumerate(aggs[0][4]):
            src = access_path(fe)
            rec.site(f, None, '%s::new: %s <- %s' % (name, fname, src))
            rec.need(src is not None and i < len(params) and src == params[i] and role_of(fname) == role_of(params[i]),
                     'new/%s/%s' % (name, role_of(fname)), f, None,
                     '%s::new stores %s into %s (parameter order %s)' % (name, src, fname, params))
    # accessors return their own field
    for name, ty in messages(F):
        for f in F.user_fns():
            if f.self_ty == ty and f.kind == 'AssocFn' and not f.trait and f.argc == 1 and f.name and role_of(f.name) in ('index', 'begin'):
                rets = [f.expr_rvalue(s['rv']) for bi, si, s in f.assigns() if s['lhs']['l'] == 0 and not s['lhs'].get('p')]
                for r in rets:
                    p = access_path(r) or ''
                    rec.site(f, None, 'accessor %s -> %s' % (f.name, p))
                    rec.need(role_of(p.split('.')[-1]) == role_of(f.name), 'accessor/%s/%s' % (name, f.name), f, None,
                             '%s::%s() returns %s' % (name, f.name, p))


@TABLE.rule('7', 'K6+K11', 'bitfield: piece i <-> bit (0x80 >> (i mod 8)) of byte i/8 in both directions; ceil(n/8) bytes', floor=6)
def r_bitfield(cx, rec):
    F = cx.F
    ty = dict(messages(F))['Bitfield']
    mask = F.consts.get(ty + '::BYTE_MASK')
    bits = F.consts.get(ty + '::BITS_IN_BYTE')
    fv = impl_method(F, ty, 'from_vec')
    tv = impl_method(F, ty, 'to_vec')

    def cval(e):
        v = fold(e)
        return v

    # from_vec: byte |= MASK >> idx ; idx = enumerate index over chunks(8) ; one push per chunk
    def descendants(p):
        out = []
        for c in F.children(p):
            out.append(F.fns[c])
            out.extend(descendants(c))
        return out
    bodies = [fv] + descendants(fv.path)
    ors = []
    for b in bodies:
        for bi, si, s in b.assigns():
            e = b.expr_rvalue(s['rv'])
            if e[0] == 'binop' and e[1] == 'BitOr':
                ors.append((b, bi, e))
    ok = False
    enum_in_fn = any(b.expr_call(bb)[4].get('name') == 'enumerate' for b in bodies for bb in mirq.real_calls(b))
    rev_in_fn = any(b.expr_call(bb)[4].get('name') in ('rev', 'rposition') for b in bodies for bb in mirq.real_calls(b))
    for b, bi, e in ors:
        sh = e[3] if e[3][0] == 'binop' else e[2]
        if sh[0] == 'binop' and sh[1] in ('Shr', 'ShrUnchecked') and cval(sh[2]) == 0x80:
            idx = sh[3]
            from_enum = any(x[0] == 'call' and x[4].get('name') == 'enumerate' for x in mirq.walk(idx)) or \
                (b is not fv and enum_in_fn and C.is_param(b, idx[1] if idx[0] in ('field', 'cast') else idx))
            rev = any(x[0] == 'call' and x[4].get('name') in ('rev', 'rposition') for x in mirq.walk(idx)) or (b is not fv and rev_in_fn)
            inner = idx[1] if idx[0] == 'cast' else idx
            tuple0 = inner[0] == 'field' and inner[2] == '0'
            rec.site(b, bi, 'from_vec: byte |= %s' % show(sh)[:60].replace('std::iter::', ''))
            ok = from_enum and not rev and tuple0
    rec.need(ok, 'bitfield/from_vec/bit-order', fv, None,
             'from_vec must set bit (0x80 >> idx) for element idx of each 8-element chunk (MSB first); idiom not found')
    ch = [bb for bb in mirq.real_calls(fv) if (fv.blocks[bb]['t'].get('name') == 'chunks')]
    rec.need(len(ch) == 1 and cval(fv.expr_call(ch[0])[2][1]) == 8, 'bitfield/from_vec/chunk', fv, None, 'from_vec must walk chunks of 8 pieces')
    for bb in ch:
        rec.site(fv, bb, 'chunks(%s)' % cval(fv.expr_call(bb)[2][1]))
        rec.need(not any(x[0] == 'call' and x[4].get('name') == 'rev' for b2 in mirq.real_calls(fv) for x in [fv.expr_call(b2)]),
                 'bitfield/from_vec/reversed', fv, bb, 'from_vec reverses an iterator')
    # to_vec: push(byte & MASK != 0) then byte <<= 1 ; stop at pieces_num
    pushes = [bb for bb in mirq.real_calls(tv) if tv.blocks[bb]['t'].get('name') == 'push']
    grow = [bb for bb in mirq.real_calls(tv) if tv.blocks[bb]['t'].get('name') in ('extend', 'extend_from_slice', 'resize', 'append', 'insert', 'push_back', 'push_front', 'truncate', 'pop')]
    # second accepted idiom: bytes.iter().flat_map(|b| (0..8).map(move |i| b & (0x80 >> i) != 0)).take(pieces_num).collect()
    tnames = [tv.blocks[bb]['t'].get('name') for bb in mirq.real_calls(tv)]
    chain_ok = False
    if not pushes and not grow and 'flat_map' in tnames and 'take' in tnames and 'collect' in tnames and \
            not set(tnames) & {'rev', 'skip', 'step_by', 'filter', 'skip_while', 'take_while', 'chain', 'zip', 'cycle'}:
        tb = [bb for bb in mirq.real_calls(tv) if tv.blocks[bb]['t'].get('name') == 'take']
        limit = access_path(strip_cast(tv.expr_call(tb[0])[2][1])) if len(tb) == 1 else None
        params_tv = [n for n, l, t in C.params_of(tv)]
        tbodies = list({b.path: b for b in descendants(tv.path)}.values())
        tests = []
        for b in tbodies:
            for bi, si, s in b.assigns():
                e = b.expr_rvalue(s['rv'])
                band = None
                if e[0] == 'binop' and e[1] == 'Ne' and cval(e[3]) == 0:
                    if e[2][0] == 'binop' and e[2][1] == 'BitAnd':
                        band = (e[2][2], e[2][3])
                    elif e[2][0] == 'call' and e[2][4].get('name') == 'bitand' and len(e[2][2]) == 2:
                        band = tuple(e[2][2])
                if band:
                    sh = [x for x in band if x[0] == 'binop' and x[1] in ('Shr', 'ShrUnchecked')]
                    if sh and cval(sh[0][2]) == 0x80 and C.is_param(b, sh[0][3][1] if sh[0][3][0] == 'cast' else sh[0][3]):
                        tests.append((b, bi, e))
        rng8 = any(x[0] == 'agg' and dict(x[4]).get('start') is not None and cval(dict(x[4])['start']) == 0 and cval(dict(x[4]).get('end', ('const', None, None, ''))) == 8
                   for b in tbodies for bi, si, s in b.assigns() for x in mirq.walk(b.expr_rvalue(s["rv"])))
        src_ok = any(tv.blocks[bb]['t'].get('name') == 'iter' and (access_path(tv.expr_call(bb)[2][0]) or '').startswith('self.') for bb in mirq.real_calls(tv))
        chain_ok = len(tests) == 1 and rng8 and src_ok and limit in params_tv and 'num' in (limit or '')
        for b, bi, e in tests:
            rec.site(b, bi, 'to_vec (chain form): bit test %s; range 0..8: %s; take(%s)' % (show(e)[:60], rng8, limit))
    if chain_ok:
        pushes = []
        for bb in mirq.real_calls(tv):
            if tv.blocks[bb]['t'].get('name') in ('iter', 'flat_map', 'take'):
                rec.site(tv, bb, 'to_vec (chain form): %s' % show(tv.expr_call(bb))[:80])
    rec.need(chain_ok or (len(pushes) == 1 and not grow), 'bitfield/to_vec/extra-output', tv, None,
             'to_vec produces output bits in %d places besides the bit test (%s): every bit must go through the same test-and-count step so that the '
             'vector stops at pieces_num' % (len(pushes) + len(grow) - 1, [tv.blocks[b]['t'].get('name') for b in grow]))
    # stop at pieces_num: after every push the length is compared with pieces_num before the next push
    for pb in pushes:
        stops = [sb for sb in tv.switches() if tv.cond(sb)[0][0] == 'binop' and tv.cond(sb)[0][1] == 'Eq' and 'pieces_num' in show(tv.cond(sb)[0]) and 'len(' in show(tv.cond(sb)[0])]
        r = tv.reach_from(pb, cut_blocks=stops)
        rec.need(bool(stops) and pb not in (r - {pb}) and not any(s2 for s2 in tv.succs(pb) if False), 'bitfield/to_vec/no-stop', tv, pb,
                 'after producing a bit, to_vec can produce the next one without comparing the length with pieces_num')
    okp = False
    for bb in pushes:
        a = tv.expr_call(bb)[2][1]
        if a[0] == 'binop' and a[1] == 'Ne' and cval(a[3]) == 0 and a[2][0] == 'binop' and a[2][1] == 'BitAnd' and cval(a[2][3]) == 0x80:
            okp = True
        rec.site(tv, bb, 'to_vec: push(%s)' % show(a)[:80])
    shl = [(bi, tv.expr_rvalue(s['rv'])) for bi, si, s in tv.assigns()
           if tv.expr_rvalue(s['rv'])[0] == 'binop' and tv.expr_rvalue(s['rv'])[1] in ('Shl', 'ShlUnchecked', 'Shr')]
    oks = any(e[1].startswith('Shl') and cval(e[3]) == 1 and access_path(e[2]) for bi, e in shl)
    for bi, e in shl:
        rec.site(tv, bi, 'to_vec: byte = %s' % show(e)[:60])
    rec.need(chain_ok or (okp and oks), 'bitfield/to_vec/bit-order', tv, None,
             'to_vec must test (byte & 0x80) and then shift the byte left by one (MSB first); idiom not found')
    rec.need(mask is not None and mask.get('val') == 0x80, 'bitfield/mask', ty + '::BYTE_MASK', None, 'BYTE_MASK must be 0x80')
    rec.need(bits is not None and bits.get('val') == 8, 'bitfield/bits', ty + '::BITS_IN_BYTE', None, 'BITS_IN_BYTE must be 8')
    # ceil(n/8) in to_vec and validate
    def count_fns(top):
        # the function itself plus crate-local helpers whose result is compared with the payload length
        out = [top]
        for sb in top.switches():
            e, ts, o = top.cond(sb)
            if e[0] == 'binop' and e[1] in ('Eq', 'Ne'):
                for a, b in ((e[2], e[3]), (e[3], e[2])):
                    if a[0] == 'call' and a[4].get('name') == 'len':
                        for x in mirq.walk(mirq.init_of(b), inl=False):
                            if x[0] == 'call' and x[1] in F.fns and F.fns[x[1]] not in out:
                                out.append(F.fns[x[1]])
        return out

    for top in (tv, impl_method(F, ty, 'validate')):
      found = False
      for fn in count_fns(top):
        for sb in fn.switches():
            e, ts, o = fn.cond(sb)
            if e[0] == 'binop' and e[1] == 'Eq' and cval(e[3]) == 0 and e[2][0] == 'binop' and e[2][1] == 'Rem' and cval(e[2][3]) == 8:
                tt, ff = fn.bool_edges(sb)
                # the value assigned on each side
                def val_on(start, other):
                    r = fn.reach_from(start, cut_blocks=[other])
                    for bi, si, s in fn.assigns():
                        if bi in r and s['rv']['k'] in ('binop', 'use'):
                            x = fn.expr_rvalue(s['rv'])
                            if any(y[0] == 'binop' and y[1] == 'Div' for y in mirq.walk(x)):
                                c, v = None, None
                                # Div(n, 8) [+ 1]
                                plus = 0
                                y = x
                                if y[0] == 'field':
                                    y = y[1]
                                if y[0] == 'binop' and y[1].startswith('Add'):
                                    plus = cval(y[3]) or 0
                                    y = y[2]
                                if y[0] == 'binop' and y[1] == 'Div' and cval(y[3]) == 8:
                                    best = plus
                                    yield best
                tv_true = list(val_on(tt, ff))
                tv_false = list(val_on(ff, tt))
                rec.site(fn, sb, 'bytes = n/8 + %s when n%%8==0 else n/8 + %s' % (tv_true[-1:] , tv_false[-1:]))
                if tv_true and tv_false and tv_true[-1] == 0 and tv_false[-1] == 1:
                    found = True
      rec.need(found, 'bitfield/bytes-num/' + top.name, top, None,
               '%s: byte count must be n/8 when n%%8==0 and n/8+1 otherwise' % top.name)


@TABLE.rule('8', 'K1+K11', 'every frame up to the frame limit is decodable: the size guard rejects exactly the length prefixes above '
            'MAX_FRAME_SIZE (shared with C06)', floor=1)
def r8(cx, rec):
    from rules import C06
    C06.r5(cx, rec)


@TABLE.rule('9', 'K7', 'the length prefix of every message kind is compared with that kind\'s own constants (shared with C06): every length the '
            'client writes is one its decoder accepts', floor=9)
def r9(cx, rec):
    from rules import C06
    C06.r4(cx, rec)
